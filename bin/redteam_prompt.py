#!/usr/bin/env python3
"""Prints the prompt for an independent red-team sub-agent for property Cxx
(only the property text and its scratch worktree; nothing from /verif)."""
import json, sys
pid = sys.argv[1]
wt = sys.argv[2]
p = [json.loads(l) for l in open('/verif/properties.jsonl') if json.loads(l)['id'] == pid][0]
print(f"""You are testing how well a semantic property of a Go code base is guarded. You work ONLY inside the git worktree {wt} (a scratch copy of the repository github.com/markkurossi/mpc: an MPCL compiler to boolean circuits plus garbled-circuit / OT / GMW protocols). Do not read or use anything under /verif or /repo; do not touch any other directory except /tmp scratch files of your own.

Environment for every shell command: `export GOFLAGS=-mod=mod GOPROXY=off MPCLDIR={wt}` (offline; do NOT set GOSUMDB). Build: `go build ./...`. Tests: `go test -count=1 ./...` — the root package test `TestSuite` always fails in this snapshot (two sha512 circuit files were emptied); every other test must pass.

THE PROPERTY ({p['id']}: {p['title']}):
{p['statement']}
Quantified over: {p['quantifier']['text']}
Anchored in: {', '.join(p['anchors']['files'])}

YOUR TASK: make ONE small, realistic change to the repository's non-test Go source (the kind of regression or bug a plausible refactoring/optimisation/"cleanup" commit could introduce) that BREAKS this property while (a) `go build ./...` still succeeds and (b) all existing tests still pass (apart from the always-failing root TestSuite). The change must need something specific in order to manifest — a particular interleaving, a fault or crash at a particular point, a multi-step sequence of operations, an unusual input/width/size, or two cooperating sites that each look fine alone — NOT something that ordinary use or the existing tests would expose at once. Then write a demonstration (a new Go test file `zz_demo_test.go` in the appropriate package, or a small `main` program under {wt}/zzdemo/) that FAILS with your change and PASSES on the unmodified tree.

Verify all of this yourself: demo passes with the change stashed (`git stash` the source change but keep the demo), demo fails with the change applied, build passes, existing tests pass with the change applied.

Deliver (final message, concise): (1) the source change saved as a unified diff at {wt}/patch.diff (produced with `git diff -- <changed source files>`; it must NOT include the demo); (2) path(s) of the demo and the exact command to run it; (3) two or three sentences: what the change does, why existing tests do not notice, and exactly what is needed for it to manifest (input, schedule, sequence). Leave the worktree with the change applied and the demo present. Do not commit.""")

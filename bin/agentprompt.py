#!/usr/bin/env python3
import sys
tpl=open('/verif/.agent_prompt_tpl.txt').read()
pid=sys.argv[1]; extra=sys.argv[2] if len(sys.argv)>2 else ""
print(tpl.replace("{PID}",pid).replace("{pid}",pid.lower()).replace("{EXTRA}",extra))

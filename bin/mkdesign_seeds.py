#!/usr/bin/env python3
"""Regenerate the seeded-change table of DESIGN.md section 5 from seeded/*/meta.json.

The table lives between <!-- AUTO:SEEDS:BEGIN --> and <!-- AUTO:SEEDS:END -->.
"""
import glob
import json
import os
import re

ROOT = os.path.dirname(os.path.dirname(os.path.abspath(__file__)))


def esc(s):
    return str(s).replace("|", "/").replace("\n", " ")


def main():
    metas = []
    for f in sorted(glob.glob(os.path.join(ROOT, "seeded", "*", "meta.json"))):
        m = json.load(open(f))
        m.setdefault("id", os.path.basename(os.path.dirname(f)))
        metas.append(m)
    props = sorted({m["property"] for m in metas})
    missed = [m["id"].split("-")[0] for m in metas if m.get("initially_missed_by")
              or "no-failing-input-found" in json.dumps(m.get("caught_by", {}))]
    lines = []
    lines.append(f"{len(metas)} changes over {len(props)} properties; "
                 f"{len(missed)} were missed or only obligation-level at first ({', '.join(missed)}); "
                 "the last column says what was strengthened.")
    lines.append("")
    lines.append("| id | property | change | needs, to manifest | caught by | initially missed by / strengthening |")
    lines.append("|---|---|---|---|---|---|")
    for m in metas:
        cb = "; ".join(f"{k}: {v}" for k, v in m.get("caught_by", {}).items()) or "MISSED"
        im = "; ".join(m.get("initially_missed_by", [])) or "-"
        prop = m["property"]
        if m.get("also_relevant"):
            prop += " (" + ",".join(m["also_relevant"]) + ")"
        lines.append(f"| {esc(m['id'])} | {prop} | {esc(m['summary'])} | {esc(m['needs'])} | {esc(cb)} | {esc(im)} |")
    block = "\n".join(lines)
    p = os.path.join(ROOT, "DESIGN.md")
    s = open(p).read()
    s2, n = re.subn(r"(<!-- AUTO:SEEDS:BEGIN -->\n).*?(\n<!-- AUTO:SEEDS:END -->)",
                    lambda mo: mo.group(1) + block + mo.group(2), s, flags=re.S)
    if n != 1:
        raise SystemExit("markers not found in DESIGN.md")
    open(p, "w").write(s2)
    print(f"section 5: {len(metas)} seeds")


if __name__ == "__main__":
    main()

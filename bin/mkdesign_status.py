#!/usr/bin/env python3
"""Regenerates the machine-generated tables of DESIGN.md section 0a
(between the AUTO markers): fix commits, hook commits, known findings,
per-property theorem lists taken from checks/Cxx.py."""
import json, os, re, subprocess
V = '/verif'
def sh(*a):
    return subprocess.run(a, capture_output=True, text=True).stdout
out = []
out.append("### fix: commits in /repo (from `git log`)\n")
out.append("Each repairs a defect that a check re-derived on the pinned tree first; its known_findings entry is `status: fixed` "
           "(suppresses nothing); reverting it in a scratch worktree makes the owning check report a VIOLATION with a concrete "
           "replay (verified per commit or per group by the builder of that check).\n")
out.append("| commit | subject |\n|---|---|")
for l in sh('git', '-C', '/repo', 'log', '--reverse', '--format=%h %s').splitlines():
    h, s = l.split(' ', 1)
    if s.startswith('fix:'):
        out.append("| %s | %s |" % (h, s[4:].strip()))
out.append("\n### hook commits (build tag `verif`, add-only)\n")
for l in sh('git', '-C', '/repo', 'log', '--reverse', '--format=%h %s').splitlines():
    h, s = l.split(' ', 1)
    if s.startswith('verif hooks'):
        out.append("* %s %s" % (h, s))
kf = json.load(open(V + '/known_findings.json'))['findings']
out.append("\n### known findings still open (`known_findings.json`, status known)\n")
out.append("| id | property | what |\n|---|---|---|")
for f in kf:
    if f.get('status', 'known') == 'known':
        out.append("| %s | %s | %s |" % (f['id'], f['property'], f['what'].replace('|', '/').replace('\n', ' ')[:420]))
out.append("\nfixed entries: " + ", ".join(sorted(f['id'] for f in kf if f.get('status') == 'fixed')) + "\n")
out.append("### theorems audited per property (from `checks/Cxx.py`, `#print axioms` on every run)\n")
for i in range(1, 21):
    p = 'C%02d' % i
    fn = V + '/checks/%s.py' % p
    if not os.path.exists(fn):
        continue
    src = open(fn).read()
    names = sorted(set(re.findall(r'"(Mpc\.[A-Za-z0-9_.\']+)"', src)))
    out.append("* **%s** (%d): %s" % (p, len(names), ", ".join(n.replace('Mpc.', '') for n in names)))
block = "\n".join(out) + "\n"
s = open(V + '/DESIGN.md').read()
a, b = "<!-- AUTO:STATUS:BEGIN -->", "<!-- AUTO:STATUS:END -->"
if a in s:
    s = s[:s.index(a) + len(a)] + "\n" + block + s[s.index(b):]
else:
    raise SystemExit("markers missing")
open(V + '/DESIGN.md', 'w').write(s)
print("ok")

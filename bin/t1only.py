#!/usr/bin/env python3
"""dev helper: run only the T1 groups given on the command line against VERIF_REPO; prints broken obligations."""
import os, sys, time
sys.path.insert(0, "/verif/bin"); sys.path.insert(0, "/verif/checks")
import vlib
from t1 import run_t1
os.chdir(vlib.VERIF)
ctx = vlib.Ctx("T1dev", "quick", 1, "proof")
t0 = time.time()
ok = run_t1(ctx, sys.argv[1:])
print("run_t1 ->", ok, "broken:", len(ctx.broken), "wall %.1fs" % (time.time() - t0))
for b in ctx.broken:
    print(" BROKEN:", b["obligation"][:150])
    d = b.get("detail", "")
    if "T1 ties still proved" in b["obligation"] or "translator accepts" in b["obligation"]:
        print("   ", d[-700:].replace("\n", "\n    "))
import shutil
shutil.rmtree(ctx.work, ignore_errors=True)

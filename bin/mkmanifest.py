#!/usr/bin/env python3
"""Regenerates MANIFEST.json from the table below (keeps it schema-valid)."""
import json
import os

VERIF = os.path.dirname(os.path.dirname(os.path.abspath(__file__)))

TB = ("Lean 4.33 kernel with propext/Classical.choice/Quot.sound only (audited per theorem on every run); Lean "
      "compiler for the executed model driver; the Go harness and Python driver; Go toolchain/stdlib. ")

CHECKS = {
    "C01": dict(
        category="proof", design_ref="DESIGN.md section 2 / C01",
        technique="Lean 4 theorem (induction over gate list, arbitrary hash functions) + translator-regenerated leaf definitions with tie theorems (harness/cmd/gofacts translate -> Gen/Leaf.lean on every run) + byte-exact model/implementation correspondence",
        text=("Lean theorems C01_garbled_eq_plain / C01_decode / C01_label_is_one_of_two / C01_compute_eq_plain: for every "
              "well-formed circuit, input, hash-function pair (hence every AES key), offset and input labels, garbled "
              "evaluation takes no error branch and each defined wire carries the label of the plain-evaluation bit. The "
              "model is the same Lean definition that is executed with Lean AES and compared byte for byte with the real "
              "Circuit.Garble/Eval/Compute on generated circuits on every run; an implementation-side oracle "
              "(BitFromLabel vs reference evaluator vs Compute) searches for concrete failing inputs. The leaf functions "
              "(ot.Label S/SetS/Mul2/Mul4/Xor/And/Equal/Bit/SetBit/GetData/SetData, NewTweak, circuit idx/idxUnary/makeK/makeKHalf/"
              "encrypt/decrypt/encryptHalf/LabelForBit) are TRANSLATED from the current Go source into Lean on every run and proved "
              "equal to the model's definitions (26 tie theorems); an unsupported construct or a failed tie is a broken obligation."),
        note=TB + "The go/ast translator (straight-line subset; block cipher call is a parameter). AES is an arbitrary function in the theorems; tweak counter modelled as Nat; WF excludes circuits "
                  "overwriting input wires."),
}


CHECKS["C02"] = dict(
    category="proof", design_ref="DESIGN.md section 2 / C02",
    technique="Lean 4 theorem (composition of C01 with message-level framing, value packing and an OT specification) + byte-exact transcript correspondence",
    text=("Theorem C02_both_get_f: for every well-formed two-party circuit, inputs, key derivation, offset, label randomness "
          "and every OT satisfying OtSpec, the model of circuit.Garbler/Evaluator returns ok(split(plainEval(x++y))) at both "
          "ends, no error branch. The same Lean definitions are executed and compared with real sessions over a recording, "
          "read-fragmenting transport: with an out-of-band ideal OT both directions' complete byte streams and both result "
          "vectors are byte-exact; with RSA, CO, COT, COT-malicious the results agree. Structural facts pin the "
          "Send/Receive/OT call order. Oracle: both parties' results equal Circuit.Compute."),
    note=TB + "OT is a parameter with specification OtSpec (C06); goroutine scheduling of the two parties is outside the "
              "model (the protocol is a fixed alternation; byte-stream faithfulness is C11).")

CHECKS["C13"] = dict(
    category="proof", design_ref="DESIGN.md section 2 / C13",
    technique="Lean 4 theorems (bit-level induction over Parse/Set loops, member lists, bitLen) over an executable model + line-by-line model/implementation correspondence + reference-encoder oracle",
    text=("Lean theorems: Parse puts the written w-bit groups on the element wires in declaration order with zero padding for "
          "every element width and count; compounds are the exact concatenation of their members with member independence; "
          "Parse and Set agree on ints and byte arrays; Sizes = InputSizes; InputSizes -> Instantiate -> Parse is lossless; "
          "Result inverts the encoding for uint/int/bool/arrays at every width and is pure and repeatable. Where /repo "
          "violates the statement the negation is proved with a witness and recorded as a known finding (or repaired by a "
          "fix: commit). ~50k op lines per quick run are executed on the real Go functions and on the compiled model."),
    note=TB + "big.Int.SetString, the regexps and the IsPrint table are taken as given and corresponded; struct outputs and "
              "types.Parse are corresponded only.")

CHECKS["C16"] = dict(
    category="proof", design_ref="DESIGN.md section 2 / C16",
    technique="Lean 4 theorem (reduction: wrong result implies a received label equals honest label xor offset) + fault enumeration on the real code, one process per fault",
    text=("Theorems C16_ok_imp_known_labels / C16_wrong_imp_offset: with an honest garbler and ARBITRARY received output labels "
          "(covering any corruption in either direction), a returned value is the decoding of labels that are each one of the "
          "wire's two labels, so a wrong value implies some received label equals the honest label xor the secret offset; "
          "unknown labels and wrong gate counts take error branches. The decision logic is tied to the real circuit.Garbler "
          "by driving it with a scripted evaluator; a call-sequence fact (helpers inlined) shows result bits are set only after "
          "BitFromLabel, whose Go source is translated to Lean on every run and proved equal to the model's bitFrom (T1 tie). "
          "Fault enumeration (bit flips, byte sets, 16-byte bursts at byte positions of both directions of whole-circuit and "
          "streaming sessions with CO / COT / COT-malicious on the wire; the streaming return-id region bit by bit; the select-bit "
          "corner flips of EVERY returned output label, all 128 bits per label in the thorough tier) requires outcome "
          "error|stalled|crash|ok(correct). Partial: authenticity of the "
          "garbling scheme itself is cryptographic, covered by the enumeration, not by a theorem."),
    note=TB + "Streaming sessions: the result-loop decision logic is the shared decodeLabels (source-text expectation advisory only) and "
              "is included in the fault enumeration.")

CHECKS["C17"] = dict(
    category="proof", design_ref="DESIGN.md section 2 / C17",
    technique="Lean 4 transition-system model with an inductive invariant over all interleavings + go/ast structural facts + trace replay on the model + race-detector stress oracle",
    text=("The scratch-pool ownership protocol of Circuit.Garble/Release is proved over all interleavings, any number of "
          "goroutines and calls: one pool per circuit, each scratch has exactly one owner, a concurrent Garble result equals "
          "C01's sequential garble and stays unchanged until release, sequential double Release is a no-op. Tied to "
          "circuit/garble.go by extracted structural facts and by replaying logged pool events of real concurrent runs on the "
          "model; every concurrent Garble/Eval/Compute result is compared with the single-goroutine result, with and without "
          "the race detector. Partial: Go memory-model races are sampled at run time only."),
    note=TB + "sync.Pool and atomic.Pointer assumed linearizable; handle usage contract (one goroutine per handle, no by-value "
              "copy) is a hypothesis, its necessity is exhibited on model and code.")

CHECKS["C19"] = dict(
    category="proof", design_ref="DESIGN.md section 2 / C19",
    technique="Lean 4 inductive invariant of a transition system over all interleavings (n, m arbitrary) + termination measure + trace validation of real executions + forced-schedule witness replay",
    text=("Safety (no lost/duplicated/cross-wired connection, no error path), deadlock freedom, termination (strictly "
          "decreasing measure) and final-state completeness (every pair shares exactly m connections, k-th <-> k-th) are "
          "proved for the mesh-formation transition system for every n >= 2 and every m <= 256 (the one-byte connection id of "
          "the hello word is in the model: C19_conn_id_one_byte). Every recorded hook trace of real loopback sessions "
          "(2..6 parties x 1..4 connections, plus many-connection meshes m = 5..64 and 2:256; permuted joins, seeded delays "
          "incl. multi-second ones) is validated as a run of the model; oracle: every Connect returns, tables complete, tagged "
          "ping on every connection arrives on the same k. Structural facts: no clock/deadline in the handshake path, hello id coding."),
    note=TB + "TCP, sync.Cond and scheduling are modelled (accept order arbitrary); real timing is sampled. Hooks: "
              "p2p/verif_point_{on,off}.go + verifPoint calls.")

CHECKS["C09"] = dict(
    category="proof", design_ref="DESIGN.md section 2 / C09",
    technique="Lean 4 models of the four optimisation passes with preservation theorems for every well-formed gate graph + structural tie (the Lean pass applied to the dumped pre-pass graph must reproduce the real post-pass graph) + Lean-proved equivalence checker (translation validation) + bit-parallel simulation oracle for the threshold/target axes",
    text=("ConstPropagate, ShortCircuitXORZero, Prune and Compile are modelled in Lean as the Go code implements them (value "
          "annotations, fan-out counters, stale pointers, BFS numbering, GMW level sort) and proved to preserve "
          "Circuit.compute for EVERY well-formed input graph (C09_constPropagate_preserves, C09_shortCircuit_preserves, "
          "C09_prune_preserves, C09_compile_preserves_partial, C09_pipeline_preserves: prune off and on compute the raw "
          "function). On every run, for each program and target the harness dumps raw -> ConstPropagate -> "
          "ShortCircuitXORZero -> Prune graphs and both compiled circuits; the Lean pass applied to each dump must "
          "reproduce the next one exactly, and the proved hypothesis checkers must accept the real graphs. Independently, "
          "checkRefines (proved sound: an accepted pair computes equal outputs on every input) validates every "
          "raw/prune-off/prune-on pair. The threshold and target axes are theorems at OPERATOR level (Props/C09Builders.lean, "
          "corollaries of the C07 exactness theorems, every width and value: ripple vs Kogge-Stone adder and subtractor, "
          "Karatsuba at any two thresholds and vs the array multiplier, Karatsuba vs Wallace, Hamming on both targets, long "
          "divider on both targets); whole-program threshold and Yao-vs-GMW pairs are tested by simulation, exhaustive for "
          "<= 16 input bits; the target axis differs only for division by ZERO (known finding with a kernel-checked witness)."),
    note=TB + "Compile's BFS numbering is validated per run (compileChecks inside the tied model function), not proved in "
              "general; pass hypotheses are chained by proved checkers on the real dumps; threshold/target equivalence is "
              "tested, not proved; fan-out counters modelled as unbounded naturals.")

CHECKS["C11"] = dict(
    category="proof", design_ref="DESIGN.md section 2 / C11",
    technique="Lean 4 theorems (induction over operation lists and over the copy/fill loops, arbitrary writer schedule and fragmentation oracle, refinement of a physical buffer-ring model) + exact model/implementation correspondence on a recording, fragmenting transport",
    text=("Theorems C11_conn_send_inv, C11_conn_sched_indep, C11_conn_close_delivers, C11_conn_recv(_from), C11_conn_roundtrip, "
          "C11_conn_duplex, C11_conn_ring_refines hold for every operation sequence, flush placement, writer interleaving, "
          "read fragmentation and payload size: typed receives return exactly the values sent, in order; Close delivers "
          "everything; counters equal bytes moved; the three-buffer ring never aliases. With failing or short transport Writes "
          "of ANY pattern (transient or permanent) the wire is always a prefix of the sent stream (C11_conn_fault_prefix; the writer "
          "stops after a failed Write, fix f07ee15; the old writer's gap is kept as C11_old_writer_gap_witness); success of all "
          "operations and Close means full delivery and an error once reported stays reported (C11_conn_fault_reported); a stream "
          "ending inside a value yields the complete values and then EOF, never a partial value (C11_conn_recv_eof_mid_value). "
          "Fault-injection and mid-value EOF sessions run on the real Conn and are compared with the model. The same Lean definitions are "
          "executed on every run against the real p2p.Conn over a seeded fragmenting transport and over p2p.Pipe with every "
          "observable compared (Write chunk lengths, wire digest, Stats, received values, Read pattern, unread rest)."),
    note=TB + "Go channels assumed FIFO; conn.Write reads the queued buffer atomically; explicit domain guard Val.Valid "
              "(outside it the Go code truncates); the writerErr read is modelled as sequentially consistent, a short write returns an "
              "error, the caller stops at its first error; Conn.Receive (OT glue) is not modelled. Structural facts come from the "
              "compiled package (reflection, a fresh Conn, buffer identities), not from source text.")

CHECKS["C04"] = dict(
    category="proof", design_ref="DESIGN.md section 2 / C04",
    technique="Lean 4 theorem in a symbolic free-hash instance of the shared garbling definitions (explicit GF(2)-linear functional, induction over gates) + sliding-window offset search over complete real transcripts",
    text=("Theorems C04_whole_circuit / C04_offset_not_in_span / C04_no_two_labels_of_a_wire: instantiating the SAME generic "
          "garbling and protocol definitions that are byte-exactly tied to the Go code at a symbolic label algebra with a "
          "free hash, for every WF circuit, inputs and permute-bit valuation there is a GF(2)-linear functional that is 1 on "
          "the secret offset R and 0 on every label of the evaluator's view (all table rows, garbler input labels, OT-chosen "
          "labels): R is not transmitted, no two transmitted values differ by R, no XOR-combination yields R. "
          "C04_tweak_reuse_leaks proves (in any algebra) that reusing a tweak across AND gates sharing an input leaks R - "
          "the pre-fix streaming mode (repaired by fix 956e0fd; long streamed programs in the oracle decide, source-text "
          "expectations about the counter are advisory). C04_ot_range_guard / C04_ot_range_unguarded_leaks: a DEVIATING evaluator's "
          "OT request is accepted only for its own wires, and then its view is the honest view for its choice bits; serving a "
          "request that reaches into the garbler's wires would hand over two labels of a wire. C04_both_labels_leak: sha2pc's "
          "OutputHints (known finding). Oracle on the real code: every 16-byte window at every byte offset of the complete "
          "garbler->evaluator stream of whole-circuit, streaming and sha2pc sessions; the offset is random (weight, select bit, never "
          "repeated); the real Garbler against a scripted evaluator sending deviating OT requests (verdicts = Lean guard)."),
    note=TB + "Symbolic model: no computational secrecy claim; stated for every hash model `code` separating x from x xor R; "
              "OT ideal in the model (its own messages are only scanned by the oracle); streaming covered by the tweak-uniqueness "
              "fact + whole-list theorem (instruction boundaries are not modelled separately).")

CHECKS["C06"] = dict(
    category="proof", design_ref="DESIGN.md section 2 / C06",
    technique="Lean 4 theorems (lock-step induction over chunk and batch loops of both parties; arbitrary PRG streams, block cipher, abstract commutative group, abstract RSA key relation) + byte-exact model/implementation correspondence (IKNP/COT/ROT/MITCCRH on deterministic tapes; real ot.CO over p2p.Conn, both wire streams and the receiver's labels, against the generic CO model instantiated with a Lean P-256 and SHA-256) + implementation-side oracle over all five OT implementations",
    text=("IKNP label form recv_i = sent_i xor b_i*Delta holds for every n and every sequence of calls on one instance, also "
          "in malicious mode; createLabels is the bit-matrix transpose; the packed-bit form is characterised exactly; "
          "COT/ROT deliver for every batch size, cipher and seed end to end over IKNP, also with the base OTs instantiated by "
          "Chou-Orlandi with reversed roles (C06_iknp_over_co); Chou-Orlandi delivers in every commutative group, stated on the "
          "HEAD helpers incl. the on-curve checks of 68f93f2 / 0e7671a; RSA OT recovers the blinding key. On every run the real IKNP/COT/ROT/MITCCRH are compared "
          "byte for byte with the executed Lean model on deterministic tapes; the oracle checks receiver = chosen sender "
          "label for RSA, CO (protocol, helpers), IKNP, COT, ROT in both adversary modes, shared/non-shared mode, repeated "
          "batches, sizes 1..2049 biased to mod 8/64/128/512 boundaries."),
    note=TB + "P-256 (crypto/elliptic) and its Lean re-implementation being a commutative group is trusted, not proved (executed only for the byte comparison; CO proved in an abstract group); RSA key "
              "relation and PKCS#1 round trip are hypotheses; the malicious consistency check itself is C15.")

CHECKS["C20"] = dict(
    category="proof", design_ref="DESIGN.md section 2 / C20",
    technique="Lean 4 theorems over an executable model + differential correspondence (byte-exact messages and share vectors) + implementation-side relation oracle",
    text=("Proved for every PRG, row stream, start position and every HISTORY of admissible Mul calls on one Sender/Receiver "
          "pair (0 < p <= 2^256, y < 2^256, empty vectors included): no call errs, every call satisfies r, u < p and "
          "u - r = x*y (mod p), each call's messages are the packed vectors of that call alone, the state carries only the OT "
          "stream position (C20_vole_session*); histories of Fx/Fxk calls over one OT (C20_fx_session); the bytes32 and packed-vector round trips and the exact panic bound; Fx shares XOR "
          "to a*b and Fxk shares to [b=1]*s, FromOT(ToOT(l)) = l, for every OT satisfying OtSpec. Tied to /repo on every "
          "run: real vole over real IKNP (ideal and CO base OT, labels recovered by a shadow IKNPSender) reproduced byte for "
          "byte by the model, real bmr.Fx*/ToOT/FromOT, and relation oracles on the real outputs over the length x modulus "
          "x element grid of the property."),
    note=TB + "IKNP and OT are parameters in the theorems (C06 supplies OtSpec and chunking); AES-CTR is an arbitrary function; "
              "negative big.Int values and values >= 2^256 are outside the domain (the latter provably panic).")

CHECKS["C07"] = dict(
    category="proof", design_ref="DESIGN.md section 2 / C07",
    technique="Lean 4 proofs on an executable builder-monad model; structural gate-list equality (the Lean generator reproduces the Go builder's gates one for one) + differential evaluation tie; exhaustive and sampled implementation-side oracle",
    text=("Proved exact for ALL operand and result widths (toNat z = f(toNat x, toNat y) mod 2^|z|, exact width guards, "
          "bridged to C01's plain evaluator): ripple and Kogge-Stone adders/subtractors (prefix-network invariant; witnesses that "
          "one stage fewer is wrong), array multiplier (row invariant), Karatsuba for every threshold >= 3, Wallace tree + final "
          "adder (column-sum invariant, termination within fuel), NewMultiplier on both targets, long divider udiv/umod for every "
          "result width (restoring invariant, non-zero divisor; zero-fill of cf9e510), signed divider/modulo and signed comparators "
          "exactly on the zero-padded operands the code uses (full for equal operand widths; C07_*_unequal_wrong witnesses for the "
          "open zero-extension findings; conditional theorems C07_*_signpad about the withdrawn repair), unsigned comparators, "
          "Eq/Neq, MUX, bitwise, logical, bit tests, array index, Hamming (both targets). Goldschmidt divider (GMW): "
          "C07_goldschmidt_correction proves the repaired correction step (776d360) exact for every width under the explicit "
          "hypothesis |estimate - a/b| <= 1, C07_goldschmidt_correction_old_wrong that the truncated version fails under it. The "
          "Lean generators reproduce the real builders' gate lists gate for gate on thousands of width triples per run. Oracle: "
          "real builder -> Compile -> Compute vs math/big, exhaustive up to 8 bits (thorough), boundary-biased to 130 bits."),
    note=TB + "Partial overall: the Goldschmidt estimate bound is a VALIDATED hypothesis (goldschmidt-estimate-within-one: all operand "
              "pairs for widths <= 9 (quick) / <= 11 (thorough) plus structured pairs up to 64 bits on every run), not a theorem; the "
              "restoring/array divider variants and `Compile` itself are validated by evaluation only; signed builders on unequal "
              "operand widths are open known findings (builder-level repair withdrawn as unsafe, see DESIGN.md section 6).")

CHECKS["C05"] = dict(
    category="translation_validation", design_ref="DESIGN.md section 2 / C05",
    technique="implementation-side differential oracle (real streaming pair vs real whole-circuit Compile+Compute) + Lean 4 proofs about executable models of Program.GC / wire allocation / the streamed gate-record codec, tied by per-run correspondence",
    text=("Real Compiler.Stream <-> StreamEvaluator sessions vs real whole-circuit Compile+Compute on generated alias-heavy / "
          "wide (ids beyond 65535) / unsized / multi-output MPCL programs: values and output types at both parties. Lean "
          "models of Program.GC, the WireAllocator free lists and streamer id rewiring, and of the streamed gate-record "
          "codec with garble/eval, compared per run with the real GC'd step list, real wire ids parsed off the wire, and "
          "real Streaming.Garble bytes. Proved: codec round trip for both id encodings and all flags; a streamed "
          "gate/circuit/program keeps the C01 relation on the global wire store with no evaluator error and equal tweak "
          "counters; C05_gc_safe: Program.GC (transitive alias closure, as repaired) never frees a wire range a later-read "
          "value points into, for every well-formed program; the allocator's hash table (bucket chains, move-to-front "
          "lookup, remove) deletes exactly the requested header (C05_walloc_remove_exact). The step list the streaming walker "
          "sees defines every value before its use: the check found that a lazily resolved phi could be read before its step "
          "(both parties then computed on never-garbled wires; repaired by 73f8795), `defineBeforeUse` is in the model "
          "(C05_defineBeforeUse_id, C05_gc_safe_reordered, old-behaviour witness) and the predicate is evaluated on every real "
          "step list. C05_stream_session: for a well-formed streamed program the garbler's decoded result (decodeLabels by "
          "position, as in C02) is the plain evaluation on the return wires."),
    note=TB + "Partial: AST->SSA front end and circuit cache validated only; `defineBeforeUse` establishing the order for EVERY "
              "scrambled list is validated per run (real Program.GC vs Lean gcPass on scrambled real step lists), not proved; the pre-fix GC and constant-padding defects are "
              "kept as theorems about explicitly named old definitions.")

CHECKS["C10"] = dict(
    category="proof", design_ref="DESIGN.md section 2 / C10",
    technique="Lean 4 theorems (n-party XOR-share simulation relation, Beaver algebra, bucket-schedule topological proof, stream view of the triple pool) + three byte-exact model/implementation correspondences + real-network oracle",
    text=("Proved for every number of parties, every single-assignment circuit without OR gates, all inputs, all sharing and "
          "triple randomness, and all bit-COT outputs satisfying C06's correlation: every dealt triple word is valid; "
          "TriplePool.Get removes exactly ceil(count/64) stream words whatever the batch arrival schedule; the level-wise "
          "evaluation keeps XOR-of-shares equal to the plain value on every wire; every party returns Circuit.compute. The "
          "same definitions are replayed against tripleBatch at 2..5 parties, Append/Get sequences with blocking Gets, and "
          "real loopback-TCP sessions (wire-share vectors, consumed words, outputs byte-exact). Oracle: real sessions of "
          "2..5 parties with random start order and delays: results = Circuit.Compute, share invariant on every wire, "
          "triple relation on pool snapshots, lock-step consumption, completion under a deadline."),
    note=TB + "The bit-COT correlation is a hypothesis (C06); connection set-up and goroutine/TCP timing are sampled; privacy is "
              "not claimed; Outputs.Split not modelled; hook gmw/verif_export.go.")

CHECKS["C15"] = dict(
    category="proof", design_ref="DESIGN.md section 2 / C15",
    technique="Lean 4 theorems on a byte-level model of the malicious-mode IKNP/KOS check (lock-step induction with an arbitrary error matrix; bilinearity and no-zero-divisors of the carry-less product) + byte-exact correspondence + exhaustive fault enumeration on the real sender compared with the proved acceptance condition",
    text=("Honest malicious-mode executions never abort (every n, choice vector, PRG, challenge generator). With any "
          "alteration E of the transmitted payload and check matrices and any altered response, the sender accepts IFF "
          "sum_r chi_r*(E_r & Delta) xor (x xor x')*Delta xor (t xor t') = 0 and then outputs the honest labels xor "
          "E_r & Delta; alterations in unselected columns are harmless; effective alterations within one row abort "
          "deterministically; response-only alterations abort unless consistent. mul128 is the GF(2) polynomial product and "
          "the CLMUL assembly's algorithm equals the generic one. Every run compares real mul128/clmul64/inner product and "
          "full malicious sessions byte for byte with the model and replays every enumerated alteration (all positions "
          "for n <= 9 in thorough) on a fresh real sender against the acceptance condition and a model-independent oracle."),
    note=TB + "Partial: multi-row acceptance (probability about 2^-128 over the challenge) is not a Lean statement; a matrix flip "
              "combined with a chi-aware response is accepted with probability 1/2 per guessed Delta bit (known finding, "
              "inherent to the KOS check); PCLMULQDQ semantics trusted; hook ot/verif_export_c15.go.")

CHECKS["C03"] = dict(
    category="translation_validation", design_ref="DESIGN.md section 2 / C03",
    technique="Lean 4 reference interpreter (with proved operator/control laws) as oracle + Lean SSA-level evaluator of the real compiler's SSA step lists (three-way tie source = SSA = circuit with stage localisation) + typed program generator + differential validation of the real Compile/Compute",
    text=("Lean big-step semantics of the MPCL subset (Model/Mpcl.lean) with 40 theorems: every operator is the BitVec operator "
          "of the declared width (signed division truncates toward zero, signed % is |a| mod |b| as the annotated tests fix, "
          "arithmetic shift, casts), early-return elimination, loop unrolling for EVERY trip count (for = n-fold composition of "
          "the body, both directions), fuel irrelevance, 30 shipped @Test vectors and the deviation witnesses evaluated in the "
          "model; `ssaEval` (37 SSA opcodes) evaluates the real compiler's dumped SSA (15k programs, 2.8M steps per thorough "
          "run, 0 unsupported opcodes) and must agree with both the source interpreter and the real circuit; "
          "C03_ssa_lower_correct_partial: on the straight-line + - & | ^ / cast fragment ssaEval(lower p) = run p for a Lean "
          "model `lower` of ssagen. The real compiler.Compile + circuit.Compute is compared with "
          "the interpreter on generated programs (exhaustive inputs where the inputs have <= 12..16 bits, else "
          "boundary-biased), on README/testsuite programs paired with hand-written ASTs, and every shipped @Test vector is "
          "run through the real compiler."),
    note=TB + "Partial: the front end is validated per program and input, not proved; SSA->circuit is modelled with ideal builders (C07) "
              "and a Lean constant-wires rule; the proved AST->SSA agreement covers the straight-line fragment and a hand-written "
              "`lower`; the real AST->SSA and SSA->circuit stages are tied differentially, per program and input; "
              "known compiler deviations are probed in tagged classes and matched narrowly; division by zero, constant "
              "folding (C12), pointers/slices/strings/builtins are outside the grammar.")

CHECKS["C08"] = dict(
    category="other", design_ref="DESIGN.md section 2 / C08",
    technique="Lean 4 permutation-invariance / history-independence obligations per map-range site + go/types structural facts + executable-model correspondence + cross-instance, cross-process differential oracle",
    text=("Every `range` over a map in the compile path is extracted from the source with go/types and must match a table that "
          "names its Lean obligation: an invariance theorem (forall permutations, under a hypothesis the harness re-checks "
          "on every compiled program) or a refutation witness. Package-level variables and the state a Compiler keeps "
          "between compilations are pinned the same way. The oracle compiles a corpus (examples, testsuite, generated "
          "multi-package programs) repeatedly on one Compiler, on fresh instances, in 6-8 child processes and on a "
          "long-lived Compiler after other programs, comparing Circuit.Marshal bytes and SSA listings, classifying every "
          "difference and tolerating only the recorded defect classes."),
    note=TB + "Go's map randomisation and scheduling are runtime behaviour a Lean model cannot exhibit: absence of order "
              "dependence outside enumerated map sites is observed, not proved; sort.Slice assumed to return a sorted permutation.")

CHECKS["C14"] = dict(
    category="proof", design_ref="DESIGN.md section 2 / C14",
    technique="Lean 4 theorems about an executable byte-level format model (reader = byte list + read-size oracle) + differential correspondence and mutation fuzz against the Go parsers",
    text=("Every circuit ParseMPCLC/ParseBristol return is defined-before-use with all wires assigned (all inputs, all reader "
          "behaviours); no index of either parser is out of range; the parsers are total (ok | error); type-text, Bristol "
          "and native round trips (same gates, counts, signature, same function, identical bytes on re-marshal). Where the "
          "pinned code failed (extra gate records panicked; strings crossing the 4 KiB bufio buffer were truncated) the "
          "negation witnesses are proved about the old variant and the defects are repaired by fix: commits. The model is "
          "tied to /repo by byte-exact marshal and full-dump parse comparison on generated circuits and thousands of "
          "mutated files per run (truncate, extend, bit flips, field splices), each parser call under recover in a child "
          "process with deadline and address-space limit."),
    note=TB + "Declared sizes > 10^6 are out of scope (as the property states); Go hang-freedom is tested, not proved; Stats, "
              "Gate.Level and MinBits are not carried by either format.")

CHECKS["C18"] = dict(
    category="proof", design_ref="DESIGN.md section 2 / C18",
    technique="Lean 4 theorems on an executable byte-level codec model and an abstract-group protocol model + differential mutation-fuzz correspondence + implementation-side session/restart oracle",
    text=("Proved: decode(encode m) = m with the documented sizes for Round1/2/3 and both session states (P-224/256/384/521 "
          "length formulas); every decoder is total (ok | error, never panic) on arbitrary bytes; canonicity where it holds "
          "with the exceptions enumerated as witnesses; session/curve mismatch rejected; resume_eq at every round boundary "
          "for either party; rounds do not crash when stored points are on the curve (crash witnesses otherwise); the "
          "evaluator's output is the packed plain evaluation of the circuit (composed from C01_decode and C06_co_delivers). "
          "Tie: real Encode*/Decode* vs the Lean model on real and mutated payloads of all four curves (outcome classes "
          "ok(fields, re-encoding) | error | panic). Oracle: digest = sha256(a xor b); byte-identical downstream messages "
          "under every restart subset; no panic; foreign session/curve rejected."),
    note=TB + "Partial: that the embedded 127k-gate circuit computes SHA-256(a xor b) is validated (Go Compute, harness evaluator "
              "and Lean evaluator vs crypto/sha256), not proved; round functions tied by oracle and source facts (no EC "
              "arithmetic in Lean), not byte-compared; Round2 canonicity assumes parity soundness of point decompression; "
              "crypto/elliptic trusted.")

CHECKS["C12"] = dict(
    category="proof", design_ref="DESIGN.md section 2 / C12",
    technique="Lean 4 executable model of mpa.Int (int64 small path on BitVec 64, arithmetic large path) and of the folding path (literal -> Constant -> cast -> Unary/Binary.evalConst -> constant wires) with operator theorems for EVERY width (large path N > 64 proved at the level result = (x op y) mod 2^N and tied by a boundary-biased mpa API correspondence for N in 65..130) + differential correspondence on the mpa API, folded SSA constants and circuit results + implementation-side oracle (constant variant vs run-time variant of each expression)",
    text=("C12_fold_eq_circuit: for every integer operator, signedness and EVERY width, fold = circuit under four named "
          "hypotheses that are exactly the open value-level root causes (operand image, div/mod operands exact non-negative, "
          "shifted operand extended, Cmp sees typed values); + - * & | ^ &^ << and unary - need none of them for N <= 64 and "
          "only the image hypothesis above; also proved end to end on the program text for non-negative operands; no crash "
          "at any width. The full statement is refuted by "
          "root-cause witnesses that the oracle re-derives on the real compiler on every run (signed / % >> on masked "
          "operands, comparison sign taken from value size, Add carry loss, result typed by value size, T(-v) not extended; "
          "for N > 64 an add/sub compiler panic, a signed divider at operand size, wrong compare sign, logical shift; "
          "constants aliased by value name): known findings, each matched narrowly by (signature, violated hypothesis, "
          "model-predicts-it). Oracle: for generated (op, type intN/uintN N in 1..130, values, 13/5 consumers) compile the "
          "constant and the run-time variant, confirm folding in the SSA, compare Circuit.Compute outputs; compiler panics "
          "are recovered and reported."),
    note=TB + "Theorems are about Model/Fold.lean and Model/Mpa.lean tied by line-by-line correspondence and cover all widths; "
              "consumers other than `return` and the result-type findings remain oracle/witness only; builder semantics taken "
              "from C07; the divider padding constant is checked against the source on every run.")

NOT_YET = {}

PROPS = [json.loads(l)["id"] for l in open(os.path.join(VERIF, "properties.jsonl"))]


# Additions of the third build session (DESIGN.md 0b): appended to the claim text / technique of each check.
ADDENDA = {
 "C01": ("Histories: Props/C01Hist.lean proves, over any history on one circuit value of successful Garble calls, Garble calls failing after "
         "any number of writes, evaluations of several garblings live at the same time and Releases in any order, that no scratch is cached twice or "
         "behind two live garblings and every live garbling evaluates correctly (C01_history_*); harness mode hist runs such histories on the real "
         "code byte for byte against the ownership model instantiated with Garble's writes.",
         " + garbling histories with failing calls (theorems over the C17 ownership model, byte-exact tie)"),
 "C02": ("Connection level: Model/Proto2Conn.lean run2Conn composes the protocol with the Conn model flight by flight; C02_both_get_f_over_conn "
         "holds for every writer schedule, read fragmentation and message size; sessions whose per-direction volume exceeds the 64 KiB write and "
         "1 MiB read buffers run over a fragmenting, delaying transport with every OT.",
         " + buffer-crossing sessions over a fragmenting transport replayed through run2Conn"),
 "C03": ("Front end: C03_ssa_lower_correct_partial - for the scalar fragment (literals, all operators incl. / %, comparisons, booleans, casts, "
         "if/else with early return, unrolled for) the Lean model Ssa.lower of ssagen.go yields SSA whose ssaEval equals the source semantics on "
         "every input; lower is tied four-way to the real ssagen on every run. Back end: C03_backend_correct - for every supported SSA step list "
         "(all 37 dumped opcodes with explicit exclusions), both targets and every input, the gate list of the Lean model ssaCompile of "
         "ssa.Program.Circuit evaluates to ssaEval; ssaCompile is tied gate for gate to the real pre-pass circuit on every run. Package-level "
         "declarations and shadowing are in the generator and the reference interpreter (Props/C03Pkg.lean). The front-end fragment now covers "
         "whole programs with inlined calls (multiple results), arrays, structs and nested aggregates: 92-95 % of generated programs.",
         " + Lean theorems for AST->SSA (scalar fragment) and SSA->gates (all opcodes), each tied to the real compiler stage on every run"),
 "C04": ("Process level: Model/GarblerProc.lean - for every history of overlapping sessions on one shared circuit value each session's OT and result "
         "loop read its own garbling (C04_proc_serves_own) and the UNION of all evaluators' views spans no session's offset (C04_process_secrecy); "
         "harness mode overlap runs 2-4 real overlapping sessions under a deterministic scheduler over evaluator stall points, oracle over the union "
         "of everything obtained.",
         " + overlapping sessions on one circuit (process model, union-of-views oracle)"),
 "C05": ("GC pass with a parametric liveness query (C05_gc_query_safe: safe for every query sound for the CURRENT set; pass-long memo refuted); "
         "generator class upd (element updates in branches/loops on all condition vectors) and an early-free exposure search.", ""),
 "C07": ("Histories: C07_history_compose / C07_history / C07_history_harness - the builder theorems hold from any builder state, hence for every "
         "history of calls on one circuits.Compiler; on every run ~2000 histories of 2..5 real builder calls are compared gate for gate with the Lean "
         "generators run in the same sequence, and MPCL functions with several operations are judged per statement.",
         " + builder histories on one Compiler (T4 over whole histories)"),
 "C08": ("Process state: Model/ProcState.lean - a compilation step as a function of (source, parameters, process state); theorems give the exact "
         "condition under which a memoising facility is invisible; harness mode pstate runs sibling-program histories per stateful facility, each in "
         "its own child process, and minimises a difference to a concrete history.", " + process-state histories in child processes"),
 "C09": ("Program level: C09_program_target_equiv - for every SSA step list supported on both targets the Yao and GMW circuits compute the same "
         "outputs (corollary of C03_backend_correct).", ""),
 "C10": ("Histories: C10_run_from_state / C10_history - every call of every history of Run calls on one connected Network (stale wires, persistent "
         "pool) outputs compute of ITS circuit and consumes exactly its triples; harness mode hist runs 2..5 calls per real network with generated "
         "relations between consecutive circuits.", " + Run histories on one Network"),
 "C12": ("Constant identity: Model/FoldTable.lean - the name-keyed constant table, C12_const_table_exact_iff (every constant sees its own bits iff "
         "the naming is injective per width), decimal naming injective; modes multi (2..4 adversarial constants per program) and ident (probe of the "
         "real Generator.Constant).", " + constant-table model and multi-constant programs"),
 "C13": ("Size inference with struct members: Model/IoInst.lean (InstantiateWithSizes, flattenStruct, main-argument path), "
         "C13_instantiate_identity_on_sized / _touches_only_unsized / _member_width; ops insts / mainarg judged by oracles; a nested-struct sizing "
         "defect found by this check was repaired in /repo (4a72a07).", " + instantiate / main-argument oracles"),
 "C15": ("Multi-row soundness tied to the coefficient vector: C15_kos_set_accept_iff, C15_kos_pair_accept_iff, C15_kos_distinct_sound; the harness "
         "recovers all coefficients from the real receiver in every session, searches them for dependencies and replays the alteration on the real "
         "sender; the dependent row set that always exists is the known finding C15-kos-dependent-rows-forgery, now a theorem "
         "(C15_dependent_rows_exist by pigeonhole, C15_kos_full_statement_false); honest runs never abort for any content of the caller's "
         "result buffer (C15_kos_history_never_aborts).",
         " + coefficient recovery and dependent-set alterations"),
 "C06": ("Caller-provided result buffers are part of every call: Model/IknpBuf.lean runs the receive path on the caller's array; "
         "C06_iknp_receive_buffer_independent, C06_iknp_history_buffers, C06_iknp_bits_dirty; the packed-bit OR-into-buffer defect found by this "
         "check was repaired in /repo (8f72c8a).", " + named-buffer call histories"),
 "C17": ("GC histories: Model/PoolGC.lean (header dropped, data retained, collector transition): C17_retained_garbling_valid, "
         "C17_gc_put_only_by_release_or_error_path; harness mode gchist with forced collections.", " + GC histories"),
 "C16": ("Additionally, in the symbolic free-hash (Dolev-Yao) model of C04 it is proved that the other label of any wire is not derivable from the "
         "evaluator's view under XOR, hashing with any tweak, select-bit setting and fresh labels, hence if every received output label is "
         "adversary-derivable the garbler's result loop returns an error or exactly the plain evaluation (C16_symbolic_no_wrong_result); the "
         "computational authenticity of the AES-based scheme remains an assumption covered by fault enumeration.", " + symbolic (Dolev-Yao) authenticity theorem"),
 "C18": ("Histories: Model/Sha2pcProc.lean - any interleaving of the round steps of several sessions in one process, steps consumed in memory or "
         "through bytes, with FAILING steps (random-source faults, foreign / malformed messages): C18_hist_frame, _failures_erased, _isolation, "
         "_complete_session, _faults_rejected; harness mode hist with payload-immutability oracle.", " + multi-session histories with failing steps"),
 "C20": ("Transport boundaries: Model/VoleWire.lean (block-wise writer with the buffer size as a parameter): C20_wire_frame, "
         "C20_wire_buffer_independent, C20_vole_session_wire, C20_vole_beyond_64k; vector lengths planned around the MEASURED transport buffers.", ""),
}
T1_NOTE = (" T1: the Go leaf functions of this property's model (see DESIGN.md 0b, T1 round 3) are re-translated from the current source into Lean "
           "on every run of THIS check and proved equal to the model's definitions.")
for _p in ("C06", "C10", "C11", "C12", "C13", "C15", "C16", "C18", "C20"):
    ADDENDA.setdefault(_p, ("", ""))
    ADDENDA[_p] = (ADDENDA[_p][0] + T1_NOTE, ADDENDA[_p][1] + " + T1 translator tie of its leaf functions")
for _p, (_t, _q) in ADDENDA.items():
    CHECKS[_p]["text"] = CHECKS[_p]["text"] + " " + _t.strip()
    CHECKS[_p]["technique"] = CHECKS[_p]["technique"] + _q


# Round-8 layers (DESIGN.md 0b "Hidden parameters found by round 8").
ADDENDA2 = {
 "C01": " Extreme circuits and a fourth size dimension (input width) with boundary discovery from the integer constants of the garbling code path; C01_every_input_wire_assigned, C01_batch_size_irrelevant, C01_slab_exact, C01_tweak_counter_u32.",
 "C04": " Streaming is judged gate by gate: the opcode catalogue is derived from Program.Stream's switch, native() programs, every gate input must be a defined wire whose labels differ by R (C04_stream_defined_sessions_secret, C04_stream_undefined_input_leaks), per-kind tweak accounting (C04_stream_safe_accounting).",
 "C06": " The RSA path is tied byte for byte with steered randomness at every boundary of the model's integer expressions (C06_rsa_received_integer, C06_rsa_delivers_bytes).",
 "C09": " Programs that divide: C09_program_target_equiv_div (Yao and GMW agree if the Goldschmidt estimate is within one on the run's divider instances), evaluated by a division sweep with structured operands; extreme-shape programs crossing 2^16 levels (C09_levels_bounded).",
 "C11": " Both halves at once: Model/ConnDuplex.lean (C11_conn_directions_independent, C11_conn_duplex_faults) with full-duplex fault sessions over a buffering socket pair.",
 "C12": " Operand purity: every operand object is observed after every mpa call over all aliasing patterns (C12_mpa_call_writes_receiver_only); constants read by several folds (C12_constant_value_independent_of_uses).",
 "C15": " Histories mixing malicious, semi-honest and packed-bit calls on one pair (C15_kos_mixed_history_never_aborts).",
 "C18": " Environment: Model/Sha2pcEnv.lean (the model has no environment parameter: C18_env_model_has_no_parameter, C18_env_hist_eq); sessions under GOMAXPROCS 1..61, GOGC settings and CPU-confined child processes are the tie.",
 "C19": " Data phase overlapping the setup phase: Model/MeshData.lean (C19_early_data_conserved, C19_early_data_delivered).",
}
for _p, _t in ADDENDA2.items():
    CHECKS[_p]["text"] = CHECKS[_p]["text"] + _t


def main():
    checks = []
    for pid in PROPS:
        if pid not in CHECKS:
            continue
        c = CHECKS[pid]
        checks.append({
            "property_id": pid,
            "quick_cmd": "bin/check %s --tier quick" % pid,
            "thorough_cmd": "bin/check %s --tier thorough" % pid,
            "evidence_file": "/verif/evidence/%s.json" % pid,
            "replay_cmd_template": "bin/check %s --replay {path}" % pid,
            "engine": "lean4-model-and-correspondence",
            "level_claimed": {"category": c["category"], "text": c["text"], "design_ref": c["design_ref"]},
            "level_note": c["note"],
            "technique": c["technique"],
        })
    na = [{"property_id": pid, "reason": NOT_YET.get(pid, "check not built yet in this session (work in progress; see DESIGN.md)")}
          for pid in PROPS if pid not in CHECKS]
    m = {
        "version": 1,
        "setup_cmd": "bin/setup",
        "hooks": {
            "guard": "verif",
            "enable": "go build -tags verif (harness module under /verif/harness, replace github.com/markkurossi/mpc => /repo)",
            "baseline_off_cmd": "cd /repo && GOFLAGS=-mod=mod GOPROXY=off go test -json -vet=off -count=1 -timeout 25m ./...",
            "source_commits": HOOK_COMMITS,
            "add_only": True,
        },
        "engines": [{
            "name": "lean4-model-and-correspondence", "path": "/verif/lean + /verif/harness + /verif/bin/check",
            "serves_properties": [c["property_id"] for c in checks],
            "kind_free_text": "Lean 4 executable models with machine-checked theorems; Go harness drives the real code "
                              "and the compiled Lean model on the same op lines and diffs results; implementation-side "
                              "oracles search for concrete failing inputs",
        }],
        "checks": checks,
        "not_applicable": na,
        "notes": "See DESIGN.md. VERIF_SEED and VERIF_TIER are honoured. known_findings.json lists recorded defects.",
    }
    json.dump(m, open(os.path.join(VERIF, "MANIFEST.json"), "w"), indent=1)
    print("MANIFEST.json: %d checks, %d not_applicable" % (len(checks), len(na)))


HOOK_COMMITS = ["4c985c7", "3a4fdd0", "3a914f6"]

if __name__ == "__main__":
    main()

#!/usr/bin/env python3
"""Regenerates MANIFEST.json from the table below (keeps it schema-valid)."""
import json
import os

VERIF = os.path.dirname(os.path.dirname(os.path.abspath(__file__)))

TB = ("Lean 4.33 kernel with propext/Classical.choice/Quot.sound only (audited per theorem on every run); Lean "
      "compiler for the executed model driver; the Go harness and Python driver; Go toolchain/stdlib. ")

CHECKS = {
    "C01": dict(
        category="proof", design_ref="DESIGN.md section 2 / C01",
        technique="Lean 4 theorem (induction over gate list, arbitrary hash functions) + byte-exact model/implementation correspondence",
        text=("Lean theorems C01_garbled_eq_plain / C01_decode / C01_label_is_one_of_two / C01_compute_eq_plain: for every "
              "well-formed circuit, input, hash-function pair (hence every AES key), offset and input labels, garbled "
              "evaluation takes no error branch and each defined wire carries the label of the plain-evaluation bit. The "
              "model is the same Lean definition that is executed with Lean AES and compared byte for byte with the real "
              "Circuit.Garble/Eval/Compute on generated circuits on every run; an implementation-side oracle "
              "(BitFromLabel vs reference evaluator vs Compute) searches for concrete failing inputs."),
        note=TB + "AES is an arbitrary function in the theorems; tweak counter modelled as Nat; WF excludes circuits "
                  "overwriting input wires."),
}

NOT_YET = {}

PROPS = [json.loads(l)["id"] for l in open(os.path.join(VERIF, "properties.jsonl"))]


def main():
    checks = []
    for pid in PROPS:
        if pid not in CHECKS:
            continue
        c = CHECKS[pid]
        checks.append({
            "property_id": pid,
            "quick_cmd": "bin/check %s --tier quick" % pid,
            "thorough_cmd": "bin/check %s --tier thorough" % pid,
            "evidence_file": "/verif/evidence/%s.json" % pid,
            "replay_cmd_template": "bin/check %s --replay {path}" % pid,
            "engine": "lean4-model-and-correspondence",
            "level_claimed": {"category": c["category"], "text": c["text"], "design_ref": c["design_ref"]},
            "level_note": c["note"],
            "technique": c["technique"],
        })
    na = [{"property_id": pid, "reason": NOT_YET.get(pid, "check not built yet in this session (work in progress; see DESIGN.md)")}
          for pid in PROPS if pid not in CHECKS]
    m = {
        "version": 1,
        "setup_cmd": "bin/setup",
        "hooks": {
            "guard": "verif",
            "enable": "go build -tags verif (harness module under /verif/harness, replace github.com/markkurossi/mpc => /repo)",
            "baseline_off_cmd": "cd /repo && GOFLAGS=-mod=mod GOPROXY=off go test -json -vet=off -count=1 -timeout 25m ./...",
            "source_commits": HOOK_COMMITS,
            "add_only": True,
        },
        "engines": [{
            "name": "lean4-model-and-correspondence", "path": "/verif/lean + /verif/harness + /verif/bin/check",
            "serves_properties": [c["property_id"] for c in checks],
            "kind_free_text": "Lean 4 executable models with machine-checked theorems; Go harness drives the real code "
                              "and the compiled Lean model on the same op lines and diffs results; implementation-side "
                              "oracles search for concrete failing inputs",
        }],
        "checks": checks,
        "not_applicable": na,
        "notes": "See DESIGN.md. VERIF_SEED and VERIF_TIER are honoured. known_findings.json lists recorded defects.",
    }
    json.dump(m, open(os.path.join(VERIF, "MANIFEST.json"), "w"), indent=1)
    print("MANIFEST.json: %d checks, %d not_applicable" % (len(checks), len(na)))


HOOK_COMMITS = []

if __name__ == "__main__":
    main()

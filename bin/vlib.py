"""Common machinery of the /verif checks (see DESIGN.md section 1).

A property check is a module checks/Cxx.py with a function run(ctx) that uses
the helpers here and finally calls ctx.finish().  Decision rule (DESIGN 1.4):

  * an implementation-side oracle failure on a concrete input  -> VIOLATION
    with that input as the replay (unless listed in known_findings.json:
    then KNOWN-FINDING and exit 0);
  * a broken proof obligation / fact / correspondence with no failing input
    found after the widened search -> VIOLATION ... no-failing-input-found,
    the replay file names the obligation.
"""
import fcntl
import hashlib
import json
import os
import re
import shutil
import subprocess
import sys
import time

VERIF = os.path.dirname(os.path.dirname(os.path.abspath(__file__)))
REPO = os.environ.get("VERIF_REPO", "/repo")
LEAN = os.path.join(VERIF, "lean")
HARNESS = os.path.join(VERIF, "harness")
ALLOWED_AXIOMS = {"propext", "Classical.choice", "Quot.sound"}
FORBIDDEN = re.compile(
    r"\bsorry\b|\badmit\b|^\s*axiom\s|native_decide|bv_decide|implemented_by|\bunsafe\s|maxHeartbeats\s+0\b")

GOENV = dict(os.environ)
GOENV.update({"GOFLAGS": "-mod=mod", "GOPROXY": "off", "MPCLDIR": REPO})
GOENV.pop("GOSUMDB", None)


def sh(cmd, cwd=None, env=None, timeout=None, input=None, cap=4 << 20):
    """Run a command, capture (and cap) output."""
    try:
        p = subprocess.run(cmd, cwd=cwd, env=env, timeout=timeout, input=input,
                           stdout=subprocess.PIPE, stderr=subprocess.STDOUT)
        out = p.stdout[:cap].decode("utf-8", "replace")
        return p.returncode, out
    except subprocess.TimeoutExpired as e:
        out = (e.stdout or b"")[:cap].decode("utf-8", "replace")
        return 124, out + "\n[timeout]"


class Ctx:
    def __init__(self, prop, tier, seed, level):
        self.prop = prop
        self.tier = tier
        self.seed = seed
        self.level = level
        self.t0 = time.time()
        self.work = os.path.join(VERIF, ".work", "%s-%d" % (prop, os.getpid()))
        os.makedirs(self.work, exist_ok=True)
        self.hx = None
        self.drv = None
        self.obligations = []       # (name, ok, detail)
        self.fails = []             # oracle failures: dict(sig=..., ...)
        self.broken = []            # broken obligations (proof / fact / correspondence)
        self.advisories = []        # drifted advisory facts (trigger the widened search, never an alarm)
        self.coverage = {}
        self.assumptions = []
        self.trusted = []
        self.samples = []
        self.evaluations = 0
        self.distinct = set()
        self.notes = []
        self.known = load_known(prop)
        self.known_hit = []

    # ------------------------------------------------------------ building
    def _modfile_args(self):
        """go.mod of the harness replaces the mpc module by /repo; when
        VERIF_REPO points elsewhere (scratch worktree) use a generated modfile."""
        shutil.copy(os.path.join(REPO, "go.sum"), os.path.join(HARNESS, "go.sum"))
        if REPO == "/repo":
            return []
        mf = os.path.join(self.work, "alt.mod")
        txt = open(os.path.join(HARNESS, "go.mod")).read().replace("=> /repo", "=> " + REPO)
        open(mf, "w").write(txt)
        shutil.copy(os.path.join(REPO, "go.sum"), os.path.join(self.work, "alt.sum"))
        return ["-modfile=" + mf]

    def build_hx(self, cmd=None, race=False):
        """Build this property's Go harness against the repository's current
        working tree, hooks on (-tags verif)."""
        cmd = cmd or self.prop.lower()
        out = os.path.join(self.work, "hx-" + cmd + ("-race" if race else ""))
        args = ["go", "build", "-tags", "verif"] + (["-race"] if race else []) + self._modfile_args() + \
               ["-o", out, "./cmd/" + cmd]
        rc, log = sh(args, cwd=HARNESS, env=GOENV, timeout=900)
        self.oblige("harness %s builds against %s working tree (-tags verif%s)" % (cmd, REPO, ", -race" if race else ""),
                    rc == 0, log[-3000:])
        if rc == 0 and not race:
            self.hx = out
        return out if rc == 0 else None

    def gofacts(self):
        """Build harness/cmd/gofacts once per run (source-level fact extractor / translator)."""
        if getattr(self, "_gofacts", None):
            return self._gofacts
        out = os.path.join(self.work, "gofacts")
        rc, log = sh(["go", "build"] + self._modfile_args() + ["-o", out, "./cmd/gofacts"], cwd=HARNESS, env=GOENV,
                     timeout=900)
        self.oblige("fact extractor harness/cmd/gofacts builds", rc == 0, log[-2000:])
        self._gofacts = out if rc == 0 else None
        return self._gofacts

    def callseq(self, pkg, func, methods, funcs=(), leaf=()):
        """Source-order sequence of the selected method calls made by `func` of
        package directory `pkg` of the repository under test, same-package
        callees inlined transitively, receivers named by declared type (see
        harness/cmd/gofacts/callseq.go).  Robust against renaming locals,
        extracting / inlining helpers, loop-form changes.  None on failure."""
        g = self.gofacts()
        if not g:
            return None
        rc, out = sh([g, "callseq", "-repo", REPO, "-pkg", pkg, "-func", func, "-methods", ",".join(methods),
                      "-funcs", ",".join(funcs)] + (["-leaf", ",".join(leaf)] if leaf else []), timeout=120)
        if rc != 0:
            return "gofacts callseq failed: " + out[-300:]
        try:
            return json.loads(out.strip().split("\n")[-1])
        except ValueError:
            return "gofacts callseq: unparsable output " + out[-200:]

    def lake(self, targets, timeout=3000):
        """lake build under the project lock."""
        lock = open(os.path.join(LEAN, ".lake.lock"), "w")
        fcntl.flock(lock, fcntl.LOCK_EX)
        try:
            rc, log = sh(["lake", "build"] + targets, cwd=LEAN, timeout=timeout)
        finally:
            fcntl.flock(lock, fcntl.LOCK_UN)
            lock.close()
        return rc, log

    def lean_run(self, text, timeout=900):
        """Elaborate a Lean snippet in the project environment."""
        path = os.path.join(self.work, "snippet_%d.lean" % len(os.listdir(self.work)))
        with open(path, "w") as f:
            f.write(text)
        return sh(["lake", "env", "lean", path], cwd=LEAN, timeout=timeout)

    def prove(self, module, theorems, extra_modules=()):
        """Build the property's theorem module and audit the axioms of every
        named theorem.  Each theorem is one obligation."""
        src_files = lean_sources_of(module, extra_modules)
        bad = []
        for p in src_files:
            for i, line in enumerate(strip_comments(open(p).read()).split("\n")):
                if FORBIDDEN.search(line):
                    bad.append("%s:%d: %s" % (os.path.relpath(p, VERIF), i + 1, line.strip()[:80]))
        self.oblige("no sorry/admit/axiom/native_decide/bv_decide/implemented_by/unsafe in %d Lean files" %
                    len(src_files), not bad, "\n".join(bad))
        rc, log = self.lake([module] + list(extra_modules))
        self.oblige("lake build %s" % module, rc == 0, log[-4000:])
        if rc != 0:
            for t in theorems:
                self.oblige("theorem %s" % t, False, "module does not build")
            return False
        text = "import %s\n" % module + "".join("import %s\n" % m for m in extra_modules)
        text += "".join("#print axioms %s\n" % t for t in theorems)
        rc, out = self.lean_run(text)
        axioms = parse_axioms(out)
        allok = True
        self.coverage.setdefault("axioms", {})
        for t in theorems:
            short = t.split(".")[-1]
            if t not in axioms and short not in axioms:
                self.oblige("theorem %s" % t, False, "not found / does not elaborate: " + out[-1500:])
                allok = False
                continue
            ax = axioms.get(t, axioms.get(short))
            extra = set(ax) - ALLOWED_AXIOMS
            self.coverage["axioms"][t] = sorted(ax)
            self.oblige("theorem %s (axioms: %s)" % (t, ",".join(sorted(ax)) or "none"), not extra,
                        "non-standard axioms: %s" % sorted(extra))
            allok = allok and not extra
        return allok

    def leanchecker(self, module):
        """Independent re-check of the compiled .olean of a module (thorough tier)."""
        rc, log = sh(["lake", "env", "leanchecker", module], cwd=LEAN, timeout=3000)
        self.oblige("leanchecker %s" % module, rc == 0, log[-2000:])
        return rc == 0

    def build_drv(self, name=None):
        name = name or ("drv_" + self.prop.lower())
        rc, log = self.lake([name])
        self.oblige("model driver %s builds" % name, rc == 0, log[-3000:])
        self.drv = os.path.join(LEAN, ".lake/build/bin", name)
        return rc == 0

    # ------------------------------------------------------------ running
    def run_hx(self, sub, n, seed=None, extra_args=(), tag="", timeout=3000, binary=None, env=None):
        """Run one harness sub-command; returns (ops, out, meta dict)."""
        seed = self.seed if seed is None else seed
        base = os.path.join(self.work, "%s%s-%d" % (sub, tag, seed))
        ops, out, meta = base + ".ops", base + ".out", base + ".meta.json"
        e = dict(GOENV)
        if env:
            e.update(env)
        rc, log = sh([binary or self.hx, sub, "-seed", str(seed), "-n", str(n), "-tier", self.tier,
                      "-ops", ops, "-out", out, "-meta", meta] + list(extra_args), env=e, timeout=timeout)
        m = {}
        if os.path.exists(meta):
            try:
                m = json.load(open(meta))
            except Exception:
                m = {}
        if rc != 0:
            m.setdefault("oracle_fails", [])
            m["harness_rc"] = rc
            m["harness_log"] = log[-3000:]
        return ops, out, m

    def run_drv(self, ops, timeout=3000):
        """Pipe the op lines to the Lean model driver; returns the output path."""
        outp = ops + ".model"
        with open(ops, "rb") as fi, open(outp, "wb") as fo:
            try:
                p = subprocess.run([self.drv], stdin=fi, stdout=fo,
                                   stderr=subprocess.PIPE, timeout=timeout)
                rc = p.returncode
            except subprocess.TimeoutExpired:
                rc = 124
        return outp, rc

    def correspond(self, name, ops, out, canon=None, maxkeep=5):
        """Replay ops on the model and diff against the implementation's
        result lines.  Returns the list of disagreements."""
        model, rc = self.run_drv(ops)
        dis = []
        n = 0
        with open(ops, errors="replace") as fo, open(out, errors="replace") as fi, open(model, errors="replace") as fm:
            for i, (op, a) in enumerate(zip(fo, fi)):
                b = fm.readline()
                n += 1
                a, b = a.rstrip("\n"), b.rstrip("\n")
                if canon:
                    a, b = canon(a), canon(b)
                if a != b:
                    if len(dis) < maxkeep:
                        dis.append({"index": i, "op": clip(op.rstrip("\n")), "impl": clip(a), "model": clip(b),
                                    "first_diff": first_diff(a, b)})
                    else:
                        dis.append(None)
        kept = [d for d in dis if d]
        self.evaluations += n
        self.coverage["correspondence_" + name] = {"ops": n, "disagreements": len(dis), "driver_rc": rc}
        self.oblige("correspondence %s: model = implementation on %d ops" % (name, n),
                    not dis and rc == 0 and n > 0,
                    json.dumps(kept[:3], indent=1) if dis else "driver rc=%d n=%d" % (rc, n))
        return kept

    def absorb_meta(self, m, prefix=""):
        """Fold a harness meta file into coverage; collect oracle failures."""
        for k, v in (m.get("counters") or {}).items():
            self.coverage.setdefault("counters", {})
            self.coverage["counters"][prefix + k] = self.coverage["counters"].get(prefix + k, 0) + v
        for s in m.get("samples") or []:
            if len(self.samples) < 6:
                self.samples.append(s)
        for f in m.get("oracle_fails") or []:
            self.fails.append(f)
        if m.get("harness_rc"):
            self.oblige("harness run %s exits 0" % prefix, False, m.get("harness_log", ""))

    # ------------------------------------------------------------ verdict
    def oblige(self, name, ok, detail=""):
        self.obligations.append({"name": name, "ok": bool(ok)})
        if not ok:
            self.broken.append({"obligation": name, "detail": clip(detail, 6000)})

    def fact(self, name, got, want):
        self.oblige("fact %s" % name, got == want,
                    "expected %s\n     got %s" % (json.dumps(want, sort_keys=True), json.dumps(got, sort_keys=True)))

    def advise(self, name, got, want):
        """Advisory source-text fact: a purely syntactic expectation about the
        code whose drift does NOT by itself say anything about the property (a
        harmless rewrite changes it) and whose semantic content is covered by a
        correspondence or oracle of the same check.  A drift is recorded in the
        evidence and makes the check run its widened search (`ctx.widen`); it is
        never a broken obligation and never raises an alarm."""
        ok = got == want
        self.advisories.append({"advisory": name, "drifted": not ok,
                                "detail": "" if ok else clip("expected %s\n     got %s" % (
                                    json.dumps(want, sort_keys=True), json.dumps(got, sort_keys=True)), 2000)})
        if not ok:
            print("ADVISORY-DRIFT: %s (widening the search)" % name)
        return ok

    @property
    def widen(self):
        """True when the check should run its widened search: an obligation is
        broken or an advisory fact drifted, and no failing input is known yet."""
        return bool(self.broken or any(a["drifted"] for a in self.advisories)) and not self.fails

    def is_known(self, f):
        for k in self.known:
            if k.get("status", "known") != "known":
                continue
            if k.get("sig") == f.get("sig"):
                m = k.get("match") or {}
                if all(str(f.get(a)) == str(b) for a, b in m.items()):
                    return k
        return None

    def finish(self, explanation="", extra_cov=None):
        # evidence/ only ever holds runs against /repo itself; runs against a
        # scratch worktree (VERIF_REPO) write elsewhere
        evdir = os.path.join(VERIF, "evidence") if REPO == "/repo" else os.path.join(VERIF, ".work", "evidence-alt")
        os.makedirs(evdir, exist_ok=True)
        os.makedirs(os.path.join(VERIF, "replays"), exist_ok=True)
        viol = []
        seen_known = {}
        for f in self.fails:
            k = self.is_known(f)
            if k:
                seen_known.setdefault(k["id"], (k, f))
            else:
                viol.append(f)
        for kid, (k, f) in sorted(seen_known.items()):
            print("KNOWN-FINDING: property=%s %s" % (self.prop, k["what"]))
        lines = []
        if viol:
            f = viol[0]
            path = os.path.join("replays", "%s-%s-seed%d.json" % (self.prop, safe(f.get("sig", "fail")), self.seed))
            json.dump({"property": self.prop, "kind": "input", "seed": self.seed, "tier": self.tier,
                       "failure": f, "more_failures": viol[1:10], "broken_obligations": self.broken[:5],
                       "rerun": "bin/check %s --replay %s" % (self.prop, path)},
                      open(os.path.join(VERIF, path), "w"), indent=1)
            lines.append("VIOLATION property=%s replay=%s" % (self.prop, path))
        elif self.broken:
            path = os.path.join("replays", "%s-obligation-seed%d.json" % (self.prop, self.seed))
            json.dump({"property": self.prop, "kind": "obligation", "seed": self.seed, "tier": self.tier,
                       "broken_obligations": self.broken,
                       "note": "a proof obligation, structural fact or model/implementation correspondence "
                               "no longer checks; the widened search found no concrete failing input",
                       "rerun": "bin/check %s --tier %s" % (self.prop, self.tier)},
                      open(os.path.join(VERIF, path), "w"), indent=1)
            lines.append("VIOLATION property=%s replay=%s no-failing-input-found" % (self.prop, path))
        nob = len(self.obligations)
        ndis = sum(1 for o in self.obligations if o["ok"])
        cov = dict(self.coverage)
        cov.update({
            "obligations": nob, "discharged": ndis,
            "obligation_list": self.obligations,
            "checker_cmd": "cd /verif/lean && lake build && lake env lean <#print axioms audit>; bin/check %s --tier %s"
                           % (self.prop, self.tier),
            "trusted_base": self.trusted or DEFAULT_TRUSTED,
            "evaluations": self.evaluations,
            "distinct_nontrivial": len(self.distinct),
            "rule": cov.get("rule", "see explanation"),
            "samples": self.samples or [{"note": "no samples"}],
            "explanation": explanation,
            "known_findings_seen": sorted(seen_known.keys()),
            "advisories": self.advisories,
            "programs": cov.get("programs", self.evaluations),
            "disagreements_checked": cov.get("disagreements_checked", 0),
        })
        if extra_cov:
            cov.update(extra_cov)
        ev = {"property_id": self.prop, "tier": self.tier, "seed": self.seed, "level": self.level,
              "coverage": cov, "assumptions": self.assumptions, "wall_s": round(time.time() - self.t0, 2),
              "violations": len(viol) + (1 if (self.broken and not viol) else 0)}
        json.dump(ev, open(os.path.join(evdir, "%s.json" % self.prop), "w"), indent=1, sort_keys=True)
        for b in self.broken[:5]:
            print("BROKEN: %s\n%s" % (b["obligation"], indent(b["detail"][:1500])))
        for f in viol[:5]:
            print("FAIL: %s" % clip(json.dumps(f), 500))
        print("%s tier=%s seed=%d obligations=%d/%d evaluations=%d distinct=%d wall=%.1fs" %
              (self.prop, self.tier, self.seed, ndis, nob, self.evaluations, len(self.distinct),
               time.time() - self.t0))
        for l in lines:
            print(l)
        shutil.rmtree(self.work, ignore_errors=True)
        sys.stdout.flush()
        return 1 if lines else 0


DEFAULT_TRUSTED = [
    "Lean 4.33.0 kernel (axioms per theorem listed under coverage.axioms; only propext, Classical.choice, Quot.sound allowed)",
    "Lean compiler/runtime for the executed model driver mpcdrv",
    "the Go harness (cmd/hx), this Python driver, Go toolchain and standard library",
    "cryptographic primitives are arbitrary functions in the theorems (no computational claim)",
]


def load_known(prop):
    p = os.path.join(VERIF, "known_findings.json")
    if not os.path.exists(p):
        return []
    try:
        return [k for k in json.load(open(p)).get("findings", []) if k.get("property") == prop]
    except Exception:
        return []


def strip_comments(s):
    s = re.sub(r"/-.*?-/", lambda m: "\n" * m.group(0).count("\n"), s, flags=re.S)
    s = re.sub(r"--.*", "", s)
    return s


def strip_go_comments(s):
    s = re.sub(r"/\*.*?\*/", "", s, flags=re.S)
    return re.sub(r"//.*", "", s)


def lean_sources_of(module, extra=()):
    """All project-local Lean files the module (transitively) imports."""
    seen, todo = set(), [module] + list(extra)
    files = []
    while todo:
        m = todo.pop()
        if m in seen:
            continue
        seen.add(m)
        p = os.path.join(LEAN, m.replace(".", "/") + ".lean")
        if not os.path.exists(p):
            continue
        files.append(p)
        for mm in re.findall(r"^import\s+(\S+)", open(p).read(), flags=re.M):
            todo.append(mm)
    return sorted(files)


def parse_axioms(out):
    res = {}
    for m in re.finditer(r"'([^']+)' depends on axioms: \[([^\]]*)\]", out, flags=re.S):
        res[m.group(1)] = [a.strip() for a in m.group(2).replace("\n", " ").split(",") if a.strip()]
    for m in re.finditer(r"'([^']+)' does not depend on any axioms", out):
        res[m.group(1)] = []
    return res


def first_diff(a, b):
    n = min(len(a), len(b))
    for i in range(n):
        if a[i] != b[i]:
            return {"pos": i, "impl": a[max(0, i - 20):i + 40], "model": b[max(0, i - 20):i + 40]}
    return {"pos": n, "impl_len": len(a), "model_len": len(b)}


def clip(s, n=2000):
    s = str(s)
    return s if len(s) <= n else s[:n] + "...[%d more]" % (len(s) - n)


def indent(s):
    return "\n".join("    " + l for l in s.split("\n"))


def safe(s):
    return re.sub(r"[^A-Za-z0-9_.-]", "_", s)[:60]


def sha(s):
    return hashlib.sha256(s.encode()).hexdigest()[:16]


def repo_file(rel):
    return open(os.path.join(REPO, rel), errors="replace").read()


def go_func_body(rel, func_re):
    """Text of a Go function (from its `func` line to the closing brace at
    column 0); used for cheap structural facts."""
    src = repo_file(rel)
    m = re.search(r"^func\s+" + func_re + r".*?^}", src, flags=re.S | re.M)
    return m.group(0) if m else None

//go:build verif

// Verification hooks for property C10 (build tag `verif`; without the tag
// this file is not compiled).  Add-only: exported read accessors and
// wrappers of unexported leaf functions of package gmw.  Installed as
// gmw/verif_export.go.

package gmw

import (
	"math/big"

	"github.com/markkurossi/mpc/ot"
	"github.com/markkurossi/mpc/p2p"
)

// VerifID returns the party's ID.
func (nw *Network) VerifID() int {
	return nw.self.id
}

// VerifWires returns a copy of the party's wire shares (bit i is the
// party's XOR share of wire i).  Call after Run returned.
func (nw *Network) VerifWires() *big.Int {
	return new(big.Int).Set(nw.wires)
}

// VerifDeltaBit returns Delta.Bit(0) of the IKNP sender instance
// towards the peer id.
func (nw *Network) VerifDeltaBit(id int) (uint, bool) {
	nw.m.Lock()
	defer nw.m.Unlock()
	p, ok := nw.peersByID[id]
	if !ok || p.iknpS == nil {
		return 0, false
	}
	return p.iknpS.Delta.Bit(0), true
}

func copyTriples(t *Triples) *Triples {
	return &Triples{
		Words: t.Words,
		A:     copyOf(t.A),
		B:     copyOf(t.B),
		C:     copyOf(t.C),
	}
}

// VerifSnapshot returns a copy of the pool content, taken under the
// pool lock.
func (pool *TriplePool) VerifSnapshot() *Triples {
	pool.m.Lock()
	defer pool.m.Unlock()
	return copyTriples(pool.triples)
}

// VerifWords returns the number of words in the pool.
func (pool *TriplePool) VerifWords() int {
	pool.m.Lock()
	defer pool.m.Unlock()
	return pool.triples.Words
}

// VerifAppend appends a batch to the pool exactly as tripleBatch does.
func (pool *TriplePool) VerifAppend(batch *Triples, size int) {
	pool.m.Lock()
	pool.triples.Append(batch, size)
	pool.c.Signal()
	pool.m.Unlock()
}

// VerifBit wraps bit.
func VerifBit(bitvec []uint64, i int) uint { return bit(bitvec, i) }

// VerifSetBit wraps setBit.
func VerifSetBit(bitvec []uint64, i int, b uint) []uint64 {
	return setBit(bitvec, i, b)
}

// VerifXorBitvec wraps xorBitvec.
func VerifXorBitvec(result, bitvec []uint64) { xorBitvec(result, bitvec) }

// VerifExpand wraps expand.
func VerifExpand(bitvec []uint64, words int) []uint64 {
	return expand(bitvec, words)
}

// VerifExpandClear wraps expandClear.
func VerifExpandClear(bitvec []uint64, words int) []uint64 {
	return expandClear(bitvec, words)
}

// VerifOfflinePeer describes one peer of an offline-only network: the
// offline connection and the two IKNP instances towards the peer.
type VerifOfflinePeer struct {
	ID   int
	Conn *p2p.Conn
	S    *ot.IKNPSender
	R    *ot.IKNPReceiver
}

// VerifOfflineNetwork creates a network that has only the state
// tripleBatch uses: the peers (in id order) with their offline
// connections and IKNP instances, and an empty pool.
func VerifOfflineNetwork(numParties, self int,
	peers []VerifOfflinePeer) *Network {

	nw := &Network{
		numParties: numParties,
		peersByID:  make(map[int]*Peer),
		self:       &Peer{id: self},
		Pool:       NewTriplePool(),
		triples:    new(Triples),
	}
	nw.peers = append(nw.peers, nw.self)
	nw.peersByID[self] = nw.self
	for _, p := range peers {
		peer := &Peer{
			id:      p.ID,
			offline: p.Conn,
			iknpS:   p.S,
			iknpR:   p.R,
		}
		nw.peers = append(nw.peers, peer)
		nw.peersByID[p.ID] = peer
	}
	nw.sortPeers()
	return nw
}

// VerifTripleBatch runs tripleBatch(size).
func (nw *Network) VerifTripleBatch(size int) error {
	return nw.tripleBatch(size)
}

"""C10 GMW: every party outputs f(inputs); dealt triples are valid."""
import hashlib
import os
import re
import shutil

import vlib

LEVEL = "proof"

THEOREMS = [
    "Mpc.C10_triples_valid",
    "Mpc.C10_cot_from_bits",
    "Mpc.C10_triples_valid_pool",
    "Mpc.C10_pool_lockstep",
    "Mpc.C10_pool_timing_independent",
    "Mpc.C10_pool_get_returns",
    "Mpc.C10_and_correct",
    "Mpc.C10_and_step",
    "Mpc.C10_level_schedule",
    "Mpc.C10_share_invariant",
    "Mpc.C10_outputs",
    "Mpc.C10_offline_online",
    "Mpc.C10_concrete",
]

HOOK_SRC = os.path.join(vlib.VERIF, "hooks", "c10-gmw-verif_export.go")


def norm(s):
    return re.sub(r"\s+", " ", s).strip()


def body(rel, func_re):
    b = vlib.go_func_body(rel, func_re)
    return vlib.strip_go_comments(b or "")


def facts(ctx):
    """T2: shape of the Go code the model assumes."""
    tsl = body("gmw/triples.go", r"\(nw \*Network\) tripleSenderLoop\(")
    sizes = [int(x) for x in re.findall(r"batchSize\s*:?=\s*(\d+)", tsl)]
    ctx.fact("tripleSenderLoop batch sizes (all multiples of 64: the only counts ReceiveBits/SendBits are used with; "
             "C06's packed-bit correlation holds exactly for n % 64 = 0)", sizes, [4096, 8192])
    ctx.fact("every batch size is a multiple of 64", all(s % 64 == 0 for s in sizes) and bool(sizes), True)

    tb = body("gmw/triples.go", r"\(nw \*Network\) tripleBatch\(")
    arith = [norm(l) for l in tb.split("\n") if re.search(r"^\s*(c|u)\[\w\]\s*\^?=", l)]
    ctx.fact("tripleBatch arithmetic (local term, u = a xor Delta, sender and receiver cross terms, both branch orders)", arith, [
        "c[i] = a[i] & b[i]",
        "u[w] = a[w] ^ ^uint64(0)", "c[w] ^= sBits[w] ^ (u[w] & v[w])", "c[w] ^= rBits[w]",
        "c[w] ^= rBits[w]", "u[w] = a[w] ^ ^uint64(0)", "c[w] ^= sBits[w] ^ (u[w] & v[w])"])
    calls = re.findall(r"peer\.(iknpS\.SendBits|iknpR\.ReceiveBits|SendBitvec|ReceiveBitvec)\(([^)]*)\)", tb)
    ctx.fact("tripleBatch OT / message call order per `self.id < peer.id`", [[a, norm(b)] for a, b in calls], [
        ["iknpS.SendBits", "size, sBits"], ["SendBitvec", "peer.offline, u"], ["ReceiveBitvec", "peer.offline, v"],
        ["iknpR.ReceiveBits", "b, rBits, size"], ["SendBitvec", "peer.offline, b"], ["ReceiveBitvec", "peer.offline, u"],
        ["iknpR.ReceiveBits", "b, rBits, size"], ["SendBitvec", "peer.offline, b"], ["ReceiveBitvec", "peer.offline, u"],
        ["iknpS.SendBits", "size, sBits"], ["SendBitvec", "peer.offline, u"], ["ReceiveBitvec", "peer.offline, v"]])
    loop = tb.split("for _, peer := range nw.peers", 1)
    inloop = loop[1] if len(loop) == 2 else ""
    ctx.fact("sBits/rBits/u/v are fresh zeroed slices per peer (SendBits/ReceiveBits only OR bits in)",
             [len(re.findall(r"\b%s := make\(\[\]uint64, words\)" % v, inloop)) for v in ("sBits", "rBits", "u", "v")],
             [1, 1, 1, 1])
    ctx.fact("Delta bit used by tripleBatch", re.findall(r"delta := ([\w.()]+)", tb),
             ["peer.iknpS.Delta.Bit(0)", "peer.iknpS.Delta.Bit(0)"])
    ctx.fact("tripleBatch hands whole words to the pool", norm(re.search(r"nw\.Pool\.triples\.Append\((.*?)\}, size\)", tb, re.S).group(1))
             if re.search(r"nw\.Pool\.triples\.Append\((.*?)\}, size\)", tb, re.S) else None,
             "&Triples{ Words: words, A: a, B: b, C: c,")

    abf = body("gmw/network.go", r"\(nw \*Network\) andBatchFlush\(")
    arith = [norm(l) for l in abf.split("\n") if re.search(r"nw\.and[DEZ]\[w\]\s*\^?=", l)]
    ctx.fact("andBatchFlush arithmetic", arith, [
        "nw.andD[w] = andA ^ nw.triples.A[w]", "nw.andE[w] = andB ^ nw.triples.B[w]",
        "nw.andZ[w] = nw.triples.C[w] ^", "nw.andZ[w] ^= (dOpen[w] & eOpen[w])"])
    ctx.fact("andBatchFlush: z = c ^ d&b ^ e&a, d&e added by party 0 only",
             norm(re.search(r"nw\.andZ\[w\] = (.*?)if self\.id == 0 \{", abf, re.S).group(1))
             if re.search(r"nw\.andZ\[w\] = (.*?)if self\.id == 0 \{", abf, re.S) else None,
             "nw.triples.C[w] ^ (dOpen[w] & nw.triples.B[w]) ^ (eOpen[w] & nw.triples.A[w])")
    ctx.fact("andBatchFlush takes len(batch) triples and clears them", re.findall(r"nw\.(Pool\.Get\(len\(batch\), nw\.triples\)|triples\.Clear\(\))", abf),
             ["Pool.Get(len(batch), nw.triples)", "triples.Clear()"])

    run = body("gmw/network.go", r"\(nw \*Network\) run\(")
    cases = [norm(m[0] + ": " + m[1]) for m in
             re.findall(r"case circuit\.(XNOR|INV):(.*?)(?=case circuit|default:)", run, re.S)]
    ctx.fact("run: constant of XNOR / INV folded into party 0", cases,
             ["XNOR: bit = a ^ b if self.id == 0 { bit ^= 1 }", "INV: if self.id == 0 { bit = a ^ 1 } else { bit = a }"])
    ctx.fact("run: levels, rest before ands", re.findall(r"(range rest\[i\]|nw\.andBatchFlush\(ands\[i\]\))", run),
             ["range rest[i]", "nw.andBatchFlush(ands[i])"])
    main = vlib.repo_file("apps/garbled/main.go")
    ctx.fact("apps/garbled assigns levels for the selected target after loading the circuit",
             bool(re.search(r"circ\.AssignLevels\(params\.Target\)", main)) and
             bool(re.search(r"params\.Target = utils\.TargetGMW", main)), True)


def install_hook(ctx):
    """The C10 hook file (build tag verif, add-only) lives in /verif/hooks; a
    scratch copy of the repository made from HEAD does not have it."""
    dst = os.path.join(vlib.REPO, "gmw", "verif_export.go")
    src = open(HOOK_SRC).read()
    if not os.path.exists(dst):
        shutil.copy(HOOK_SRC, dst)
        ctx.notes.append("installed hooks/c10-gmw-verif_export.go as %s" % dst)
    ctx.fact("gmw/verif_export.go is the add-only hook file of /verif/hooks (build tag verif)",
             vlib.sha(open(dst).read()), vlib.sha(src))


def run(ctx):
    ctx.prove("MpcVerif.Props.C10", THEOREMS)
    if ctx.tier == "thorough":
        ctx.leanchecker("MpcVerif.Props.C10")
    ctx.build_drv()
    try:
        facts(ctx)
    except Exception as e:  # a fact whose anchor text is gone
        ctx.oblige("structural facts extractable from gmw/*.go", False, repr(e))
    install_hook(ctx)
    quick = ctx.tier == "quick"
    if ctx.build_hx():
        plan = [("tb", 24 if quick else 200, ctx.seed), ("pool", 1000 if quick else 8000, ctx.seed),
                ("sess", 84 if quick else 330, ctx.seed)]
        if not quick:
            plan.append(("sess", 330, ctx.seed + 1000))
        for mode, n, seed in plan:
            ops, out, meta = ctx.run_hx(mode, n, seed=seed, timeout=1700)
            ctx.absorb_meta(meta, prefix=mode + "_")
            what = {"tb": "tripleBatch c shares of every party (shadow IKNP instances)",
                    "pool": "Triples.Append / TriplePool.Get sequences, bit-vector leaf functions",
                    "sess": "complete wire-share vectors, consumed triple words and outputs of every party"}[mode]
            ctx.correspond("%s (%s, seed %d)" % (mode, what, seed), ops, out)
            for line in open(ops, errors="replace"):
                ctx.distinct.add(hashlib.sha1(line.encode()).digest())
        c = ctx.coverage.get("counters", {})
        ctx.oblige("sessions with 2, 3, 4 and 5 parties ran", all(c.get("sess_parties_%d" % k, 0) > 0 for k in (2, 3, 4, 5)),
                   str({k: v for k, v in c.items() if k.startswith("sess_parties")}))
        ctx.oblige("AND batches whose size is not a multiple of 64, multi-word batches and circuits with >= 8 AND levels ran",
                   c.get("sess_and_batches_not_multiple_of_64", 0) > 0 and c.get("sess_and_batches_multiword", 0) > 0 and
                   c.get("sess_sessions_ge8_and_levels", 0) > 0, str(c))
        ctx.oblige("a Get that had to wait for arriving batches ran (pool ops)", c.get("pool_pool_get_blocked", 0) > 0, str(c))
        ctx.coverage["programs"] = c.get("sess_sessions", 0)
        if ctx.broken and not ctx.fails:
            # widened search for a concrete failing input
            for s in range(ctx.seed + 7000, ctx.seed + 7003):
                for mode, n in (("tb", 60), ("sess", 60)):
                    ops, out, meta = ctx.run_hx(mode, n, seed=s, tag="-widen", timeout=1700)
                    ctx.absorb_meta(meta, prefix="widen_")
                if ctx.fails:
                    break
    ctx.coverage["rule"] = (
        "sess: real gmw networks over loopback TCP, 2..5 parties, random start order and delays (leader listens first), "
        "circuits = fixed MPCL corpus + random MPCL programs (no / and %) compiled for the GMW target + synthetic layered "
        "circuits with AND batch sizes on word boundaries and INV gates; 'snap' sessions wait for the pools' stable level, "
        "snapshot them and are replayed on the model, 'race' sessions start Run while triples are still being generated; "
        "tb: tripleBatch for 2..5 parties, batch sizes 64..8192; pool: random Append/Get/Clear/arrival sequences with "
        "blocking Gets. distinct = distinct op lines")
    ctx.assumptions += [
        "the bit-COT correlation r = s xor Delta0*b is a hypothesis of C10_triples_valid (property C06 proves it for the "
        "IKNP model when n % 64 = 0; tripleBatch sizes are 4096 and 8192 - checked as a fact; the tb harness re-checks it "
        "on every consumed word)",
        "goroutine / TCP timing is sampled, not enumerated: the theorems cover every arrival schedule of triple batches "
        "(C10_pool_lockstep) but the connection set-up of gmw.Network (accept/dial order) is only exercised",
        "privacy is not claimed (tripleBatch sends b and a xor Delta in clear)",
        "hang classification: a session is a suspect when no byte moved on any connection, no pool level changed and no "
        "party finished a phase for 60 s (or it ran 10 min); it is reported as c10-timeout only after a re-run ALONE "
        "(no other session in the harness) shows no progress for 120 s; nothing is launched after a confirmed hang",
        "the leader's listener exists before a peer dials it (a peer that finds no leader returns an error by design)",
        "wire store totalised: theorems carry SSA (single assignment, topological, indices < numWires), which the "
        "compiler output satisfies and the harness circuits are checked for by the reference evaluator",
    ]
    return ctx.finish(
        "Theorems (Props/C10.lean): for every n, all local randomness and all COT outputs satisfying the bit-COT "
        "correlation every dealt triple word satisfies (xor a)&(xor b) = xor c; TriplePool.Get removes exactly "
        "ceil(count/64) words of the stream whatever the arrival schedule; for every single-assignment circuit without OR "
        "gates, every input, every sharing randomness and valid pools with enough words, the level-wise evaluation keeps "
        "xor-of-shares = plain value on every wire and every party returns Circuit.compute. Tie: the same Lean definitions "
        "replayed on (a) tripleBatch at 2..5 parties with shadow IKNP instances revealing sBits/rBits, (b) Triples.Append / "
        "TriplePool.Get op sequences incl. blocked Gets, (c) real TCP sessions: from the observed input shares and pool "
        "snapshots the model reproduces every party's complete wire-share vector, consumed word count and outputs. "
        "Oracle on the real code: results = Circuit.Compute at every party, xor of shares = reference value on every wire, "
        "triple relation on pool snapshots / Pool.Get output / tripleBatch output, lockstep consumption, completion under a "
        "deadline, Close returns nil.")

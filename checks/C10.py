"""C10 GMW: every party outputs f(inputs); dealt triples are valid."""
import hashlib
import json
import os
import re
import shutil
import sys

import vlib

sys.path.insert(0, os.path.dirname(os.path.abspath(__file__)))
from t1 import run_t1  # noqa: E402  (T1 leaf translator tie, checks/t1.py)

LEVEL = "proof"

THEOREMS = [
    "Mpc.C10_triples_valid",
    "Mpc.C10_cot_from_bits",
    "Mpc.C10_triples_valid_pool",
    "Mpc.C10_pool_lockstep",
    "Mpc.C10_pool_timing_independent",
    "Mpc.C10_pool_get_returns",
    "Mpc.C10_and_correct",
    "Mpc.C10_and_step",
    "Mpc.C10_level_schedule",
    "Mpc.C10_share_invariant",
    "Mpc.C10_outputs",
    "Mpc.C10_offline_online",
    "Mpc.C10_concrete",
    # histories of Run calls on one connected Network (Model/GmwHist.lean)
    "Mpc.C10_run_is_first_call",
    "Mpc.C10_run_from_state",
    "Mpc.C10_history",
    "Mpc.C10_history_offline_online",
    "Mpc.C10_history_concrete",
    # the boundary of "every circuit": width of the level counter (Model/LevelsMod.lean)
    "Mpc.C10_levels_topological",
    "Mpc.C10_topo_check_sound",
    "Mpc.C10_levels_counter_exact",
    "Mpc.C10_levels_u32",
    "Mpc.C10_bounded_levels_not_topological",
    "Mpc.C10_levels_mod_not_topological",
    "Mpc.C10_levels_mod_wrong_output",
    "Mpc.C10_driver_compute",
    # inputs as the integers the API accepts (Model/GmwInt.lean: big.Int.Xor / big.Int.Bit on every integer)
    "Mpc.C10_input_share_twos_complement",
    "Mpc.C10_int_run_is_residue_run",
    "Mpc.C10_outputs_int",
    "Mpc.C10_outputs_args",
    "Mpc.C10_history_int",
    "Mpc.C10_abs_words_agree_nonneg",
    "Mpc.C10_abs_words_run_wrong",
    # degenerate session shapes: the message transcript of a run (Model/GmwMsgs.lean)
    "Mpc.C10_input_share_one_message_per_pair",
    "Mpc.C10_transcript_matched",
]

# degenerate session shapes (harness/cmd/c10/degen.go), planned by case index
DEGEN_CLASSES = ["zero-in-one", "zero-in-all-but-one", "compiled", "one-bit-in", "zero-and", "single-gate", "zero-gates",
                 "zero-out", "irrelevant-party", "zero-in-all"]

# input representations (harness/cmd/c10/repr.go): session classes and value classes
REPR_CLASSES = ["sess-compiled", "sess-synthetic", "hist", "ext"]
REPR_VALUES = ["zero", "in_range", "minus_one", "negative_in_signed_range", "min_signed", "max_signed", "max_unsigned",
               "two_pow_w", "minus_two_pow_w", "positive_wider_than_argument", "negative_wider_than_argument",
               "negative_word_boundary_magnitude", "positive_word_boundary_magnitude", "small_negative"]

# internal dimensions of the implementation that bound "every circuit" (harness/cmd/c10/ext.go)
EXT_CLASSES = ["deep", "wide-and", "wide-rest", "many-out", "wide-in"]

# relation of the circuit of a call to the circuit of the previous call on the same Network (harness/cmd/c10/hist.go)
HIST_RELATIONS = ["same-object", "copy", "rewire", "same-depth", "deeper", "shallower", "wider-in", "narrower-in",
                  "zero-and", "mpcl", "or-last"]

HOOK_SRC = os.path.join(vlib.VERIF, "hooks", "c10-gmw-verif_export.go")


def norm(s):
    return re.sub(r"\s+", " ", s).strip()


def body(rel, func_re):
    b = vlib.go_func_body(rel, func_re)
    return vlib.strip_go_comments(b or "")


WIRE = ["SendBits", "ReceiveBits", "SendUint32", "SendLabel", "Flush", "ReceiveUint32", "ReceiveLabel",
        "SendData", "ReceiveData"]
SEND_VEC = ["p2p.Conn.SendUint32", "p2p.Conn.SendLabel", "p2p.Conn.Flush"]                  # Peer.SendBitvec
RECV_VEC = ["p2p.Conn.ReceiveUint32", "p2p.Conn.ReceiveLabel"]                              # Peer.ReceiveBitvec
SEND_VEC2 = ["p2p.Conn.SendUint32", "p2p.Conn.SendLabel", "p2p.Conn.SendLabel", "p2p.Conn.Flush"]   # SendBitvec2
RECV_VEC2 = ["p2p.Conn.ReceiveUint32", "p2p.Conn.ReceiveLabel", "p2p.Conn.ReceiveLabel"]            # ReceiveBitvec2
SEND_DATA = ["p2p.Conn.SendData", "p2p.Conn.Flush"]                                         # shareInput / sendOutput
RECV_DATA = ["p2p.Conn.ReceiveData"]                                                        # receiveInput / receiveOutput
SENDER_TERM = ["ot.IKNPSender.SendBits"] + SEND_VEC + RECV_VEC
RECEIVER_TERM = ["ot.IKNPReceiver.ReceiveBits"] + SEND_VEC + RECV_VEC


def facts(ctx):
    """T2.  SEMANTIC facts (obligations): call sequences extracted from the
    syntax tree with same-package helpers inlined and receivers named by
    declared type (gofacts callseq) - unchanged by renaming locals,
    extracting / inlining helpers, loop-form changes.  ADVISORY facts: literal
    source text whose meaning is already decided by a correspondence or an
    oracle of this check; a drift only widens the search."""
    # ---- semantic
    ctx.fact("offline message grammar of Network.tripleBatch per peer: self.id < peer.id -> sender term (SendBits, send u, "
             "receive v) then receiver term (ReceiveBits, send b, receive u); otherwise receiver term first",
             ctx.callseq("gmw", "Network.tripleBatch", WIRE), SENDER_TERM + RECEIVER_TERM + RECEIVER_TERM + SENDER_TERM)
    ctx.fact("online message grammar of Network.run: input sharing (send/receive or receive/send by id order), per level one "
             "two-vector opening (send/receive or receive/send), output exchange",
             ctx.callseq("gmw", "Network.run", WIRE),
             SEND_DATA + RECV_DATA + RECV_DATA + SEND_DATA + SEND_VEC2 + RECV_VEC2 + RECV_VEC2 + SEND_VEC2 +
             SEND_DATA + RECV_DATA + RECV_DATA + SEND_DATA)
    ctx.fact("apps/garbled loadCircuit assigns levels on the loaded circuit",
             ctx.callseq("apps/garbled", "loadCircuit", ["AssignLevels"]), ["circuit.Circuit.AssignLevels"])

    # ---- advisory (text); sets over the whole file, so that moving a statement into a helper does not drift
    tsrc = vlib.strip_go_comments(vlib.repo_file("gmw/triples.go"))
    nsrc = vlib.strip_go_comments(vlib.repo_file("gmw/network.go"))
    tsl = body("gmw/triples.go", r"\(nw \*Network\) tripleSenderLoop\(")
    ctx.advise("tripleSenderLoop batch size literals (decided at run time by `pools dealt whole words` and the triple oracle)",
               [int(x) for x in re.findall(r"batchSize\s*:?=\s*(\d+)", tsl)], [4096, 8192])
    ctx.advise("triples.go cross-term arithmetic statements (decided by the tb correspondence)",
               sorted(set(norm(l) for l in tsrc.split("\n") if re.search(r"^\s*(c|u)\[\w\]\s*\^?=", l))),
               sorted(["c[i] = a[i] & b[i]", "u[w] = a[w] ^ ^uint64(0)", "c[w] ^= sBits[w] ^ (u[w] & v[w])", "c[w] ^= rBits[w]"]))
    ctx.advise("Delta bit index used for the bit-COT (decided by the tb correspondence)",
               sorted(set(re.findall(r"iknpS\.Delta\.Bit\((\w+)\)", tsrc))), ["0"])
    ctx.advise("sBits/rBits/u/v allocated zeroed in tripleBatch (SendBits/ReceiveBits only OR bits in; decided by the tb "
               "correspondence and the triple oracle with >= 3 parties)",
               sorted(set(re.findall(r"\b(sBits|rBits|u|v) := make\(\[\]uint64, words\)", tsrc))), ["rBits", "sBits", "u", "v"])
    ctx.advise("andBatchFlush arithmetic statements (decided by the sess correspondence on every wire share)",
               sorted(set(norm(l) for l in nsrc.split("\n") if re.search(r"nw\.and[DEZ]\[w\]\s*\^?=", l))),
               sorted(["nw.andD[w] = andA ^ nw.triples.A[w]", "nw.andE[w] = andB ^ nw.triples.B[w]",
                       "nw.andZ[w] = nw.triples.C[w] ^", "nw.andZ[w] ^= (dOpen[w] & eOpen[w])"]))
    ctx.advise("andBatchFlush takes len(batch) triples and clears them (decided by the lockstep oracle: consumed words = need)",
               re.findall(r"nw\.(Pool\.Get\(len\(batch\), nw\.triples\)|triples\.Clear\(\))", nsrc),
               ["Pool.Get(len(batch), nw.triples)", "triples.Clear()"])
    ctx.advise("run: constant of XNOR / INV folded into party 0 (decided by the sess correspondence; synthetic circuits use both)",
               [norm(m[0] + ": " + m[1]) for m in
                re.findall(r"case circuit\.(XNOR|INV):(.*?)(?=case circuit|default:)", nsrc, re.S)],
               ["XNOR: bit = a ^ b if self.id == 0 { bit ^= 1 }", "INV: if self.id == 0 { bit = a ^ 1 } else { bit = a }"])
    ctx.advise("the own input enters the wires through big.Int.Xor and big.Int.Bit only (two's complement on every integer; "
               "decided by the repr correspondence and oracle on negative / oversized *big.Int inputs)",
               [bool(re.search(r"self\.shared\.Xor\(self\.shared,\s*self\.input\)", nsrc)),
                bool(re.search(r"nw\.setWires\(self,\s*self\.shared\)", nsrc)),
                re.findall(r"nw\.wires\.SetBit\(nw\.wires,\s*ofs\+i,\s*(\w+\.\w+\(i\))\)", body("gmw/network.go", r"\(nw \*Network\) setWires\("))],
               [True, True, ["input.Bit(i)"]])
    csrc = vlib.strip_go_comments(vlib.repo_file("circuit/circuit.go"))
    al = body("circuit/circuit.go", r"\(c \*Circuit\) AssignLevels\(")
    ctx.advise("width of the level counter: `type Level uint32`, AssignLevels' per-wire scratch table and maximum are of "
               "type Level (the no-overflow side condition of C10_levels_u32 is AND depth < 2^32; decided at run time by the "
               "ext correspondence up to AND depth 262145: real gate levels = Nat levels)",
               [re.findall(r"type Level (\w+)", csrc), re.findall(r"levels := make\(\[\](\w+),", al),
                re.findall(r"var max (\w+)", al)], [["uint32"], ["Level"], ["Level"]])
    ctx.advise("apps/garbled selects the GMW target for -gmw", bool(re.search(
        r"params\.Target = utils\.TargetGMW", vlib.repo_file("apps/garbled/main.go"))), True)


def install_hook(ctx):
    """The C10 hook file (build tag verif, add-only) lives in /verif/hooks; a
    scratch copy of the repository made from HEAD does not have it."""
    dst = os.path.join(vlib.REPO, "gmw", "verif_export.go")
    src = open(HOOK_SRC).read()
    if not os.path.exists(dst):
        shutil.copy(HOOK_SRC, dst)
        ctx.notes.append("installed hooks/c10-gmw-verif_export.go as %s" % dst)
    ctx.fact("gmw/verif_export.go is the add-only hook file of /verif/hooks (build tag verif)",
             vlib.sha(open(dst).read()), vlib.sha(src))


def replay_request():
    """bin/check C10 --replay F: (mode, seed, n, case) when F holds a failing session / history of the harness.  The
    harness derives every case from (seed, case index), so `-only <case>` re-runs exactly that case."""
    if "--replay" not in sys.argv:
        return None
    try:
        f = sys.argv[sys.argv.index("--replay") + 1]
        f = f if os.path.isabs(f) else os.path.join(vlib.VERIF, f)
        fl = (json.load(open(f)).get("failure") or {})
        m = re.match(r"hx-c10 (sess|hist|ext|repr|degen) -seed (\d+) -n (\d+) -only (\d+) -tier \w+$", fl.get("rerun", ""))
        return (m.group(1), int(m.group(2)), int(m.group(3)), int(m.group(4))) if m else None
    except Exception:
        return None


WHAT = {"tb": "tripleBatch c shares of every party (shadow IKNP instances)",
        "pool": "Triples.Append / TriplePool.Get sequences, bit-vector leaf functions",
        "sess": "complete wire-share vectors, consumed triple words and outputs of every party",
        "ext": "extreme circuits (AND depth / level width / outputs / input width across 2^8 and 2^16): gate levels of the real "
               "AssignLevels, level oracle, every party's outputs; share-level run ops where the pool snapshot covers the run",
        "degen": "degenerate session shapes (arguments of 0 bits / 1 bit, circuits without AND gates / gates / outputs, one gate, "
                 "a party no gate reads): complete wire stores, consumed words and outputs of every party (run ops) and the bytes "
                 "every party sent on its online connections during Run = sentBytes of the model's message transcript (msgs ops)",
        "repr": "input representations: sessions, histories and wide-input circuits whose inputs are IOArg.Parse texts / direct "
                "*big.Int values of any sign and magnitude (runi / histi / lvli: the model reads the signed decimals with "
                "big.Int.Xor / big.Int.Bit semantics): complete wire stores, consumed words and outputs of every party",
        "hist": "histories of 2..5 Run calls on one Network: complete wire stores (stale bits included) and outputs of "
                "every party after every call, consumed triple words over the whole history"}


def run(ctx):
    ctx.prove("MpcVerif.Props.C10", THEOREMS)
    run_t1(ctx, ["C10"])          # gmw/bitvec.go = Gmw.bit/setBit/xorBitvec/expand/expandClear
    if ctx.tier == "thorough":
        ctx.leanchecker("MpcVerif.Props.C10")
    ctx.build_drv()
    try:
        facts(ctx)
    except Exception as e:  # a source file of the advisory text facts moved
        ctx.advise("advisory text facts extractable from gmw/*.go", repr(e), "ok")
    install_hook(ctx)
    quick = ctx.tier == "quick"
    if ctx.build_hx():
        # ---- --replay of one recorded session / history: exactly that case; a reproduced failure decides the run
        rq = replay_request()
        if rq:
            mode, seed, n, case = rq
            ops, out, meta = ctx.run_hx(mode, n, seed=seed, extra_args=["-only", str(case)], tag="-replay", timeout=1700)
            ctx.absorb_meta(meta, prefix="replay_")
            if os.path.exists(ops) and os.path.getsize(ops) > 0:
                ctx.correspond("replayed %s case %d of seed %d (%s)" % (mode, case, seed, WHAT[mode]), ops, out)
            print("replayed %s case %d of seed %d (n=%d): %d oracle failure(s)" % (mode, case, seed, n, len(ctx.fails)))
            for f in ctx.fails[:3]:
                print("  " + json.dumps({k: v for k, v in f.items() if k not in ("history", "circuit", "src")})[:600])
            if ctx.fails:
                ctx.coverage["rule"] = "replay of one recorded %s case (the full check was not run)" % mode
                return ctx.finish("Replay: %s case %d of seed %d was re-generated from its seed and re-run on real gmw "
                                  "networks; the oracle fails again." % (mode, case, seed))
            print("the replayed case no longer fails; running the full check")
        # ext first: the boundary cases are few and decide fast (n = the whole plan of the tier)
        # degen first: a protocol that does not complete on a degenerate shape is decided in about a minute
        plan = [("degen", 60 if quick else 400, ctx.seed), ("ext", 1000, ctx.seed), ("repr", 48 if quick else 240, ctx.seed), ("tb", 24 if quick else 200, ctx.seed),
                ("pool", 1000 if quick else 8000, ctx.seed),
                ("sess", 84 if quick else 330, ctx.seed), ("hist", 28 if quick else 160, ctx.seed)]
        if not quick:
            plan.append(("sess", 330, ctx.seed + 1000))
            plan.append(("hist", 160, ctx.seed + 1000))
            plan.append(("repr", 240, ctx.seed + 1000))
        for mode, n, seed in plan:
            ops, out, meta = ctx.run_hx(mode, n, seed=seed, timeout=1700)
            ctx.absorb_meta(meta, prefix=mode + "_")
            ctx.correspond("%s (%s, seed %d)" % (mode, WHAT[mode], seed), ops, out)
            for line in open(ops, errors="replace"):
                ctx.distinct.add(hashlib.sha1(line.encode()).digest())
        c = ctx.coverage.get("counters", {})
        ctx.oblige("sessions with 2, 3, 4 and 5 parties ran", all(c.get("sess_parties_%d" % k, 0) > 0 for k in (2, 3, 4, 5)),
                   str({k: v for k, v in c.items() if k.startswith("sess_parties")}))
        ctx.oblige("AND batches whose size is not a multiple of 64, multi-word batches and circuits with >= 8 AND levels ran",
                   c.get("sess_and_batches_not_multiple_of_64", 0) > 0 and c.get("sess_and_batches_multiword", 0) > 0 and
                   c.get("sess_sessions_ge8_and_levels", 0) > 0, str(c))
        ctx.oblige("every pool snapshot held exactly the triples asked for: all dealt batches were whole 64-bit words (the "
                   "counts SendBits/ReceiveBits are used with are multiples of 64)",
                   c.get("sess_pools_dealt_whole_words", 0) > 0 and c.get("sess_pools_dealt_partial_words", 0) == 0,
                   str({k: v for k, v in c.items() if "pools_dealt" in k}))
        ctx.oblige("a Get that had to wait for arriving batches ran (pool ops)", c.get("pool_pool_get_blocked", 0) > 0, str(c))
        ctx.oblige("extreme circuits: every class (%s) ran as real sessions that completed with correct outputs; AND depth "
                   ">= 2^8 and >= 2^16 ran as sessions (depth 65537 included) and, levels only, beyond 2^17; an AND batch of >= "
                   "2^16 gates ran; the level oracle judged every circuit of every mode" % ", ".join(EXT_CLASSES),
                   all(c.get("ext_sessions_ok_" + k, 0) > 0 for k in EXT_CLASSES) and
                   c.get("ext_deep_size_65537", 0) >= 2 and c.get("ext_sessions_ok_deep", 0) >= 5 and
                   c.get("ext_deep_and_depth_ge_2^16", 0) >= 4 and c.get("ext_and_batch_ge_2^16", 0) > 0 and
                   c.get("ext_lvl_ops", 0) >= 20 and c.get("sess_level_oracle_circuits", 0) > 0 and
                   c.get("hist_level_oracle_circuits", 0) > 0,
                   str({k: v for k, v in c.items() if k.startswith("ext_") and "size" not in k}))
        dg = lambda k: c.get("degen_" + k, 0)  # noqa: E731
        ctx.oblige("degenerate session shapes: every class (%s) ran and completed with correct outputs; a party with an "
                   "argument of 0 bits as first, middle and last party and in sessions of 2, 3, 4 and 5 parties; sessions where "
                   "all but one party have 0 input bits; compiled programs with a 0-bit argument; circuits with 0 AND gates, 0 "
                   "gates, 1 gate, 0 outputs; run and msgs ops were replayed on the model" % ", ".join(DEGEN_CLASSES),
                   all(dg("cases_ok_" + k) > 0 for k in DEGEN_CLASSES) and
                   all(dg("zero_in_party_" + k) > 0 for k in ("first", "middle", "last")) and
                   all(dg("zero_in_parties_%d" % k) > 0 for k in (2, 3, 4, 5)) and
                   dg("sessions_all_but_one_zero_bit") > 0 and dg("sessions_all_one_bit") > 0 and
                   dg("sessions_zero_and") > 0 and dg("sessions_zero_gates") > 0 and dg("sessions_single_gate") > 0 and
                   dg("sessions_zero_outputs") > 0 and dg("run_ops") > 0 and dg("msgs_ops") > 0,
                   str({k: v for k, v in c.items() if k.startswith("degen_") and "triple" not in k}))
        ctx.oblige("degenerate session shapes: a compiled GMW program with a 0-bit argument ([0]byte) ran as a session",
                   dg("kind_degen-compiled") > 0 and dg("cases_ok_compiled") > 0, str(dg("cases_ok_compiled")))
        hc = {k: v for k, v in c.items() if k.startswith("hist_")}
        ctx.oblige("histories on one Network: 2, 3, 4 and 5 parties; 2..5 calls; every relation between consecutive circuits "
                   "(%s) ran; consecutive DIFFERENT circuits of the same AND depth, a smaller and a larger circuit after "
                   "the previous one ran; histories were replayed on the model" % ", ".join(HIST_RELATIONS),
                   all(hc.get("hist_parties_%d" % k, 0) > 0 for k in (2, 3, 4, 5)) and
                   all(hc.get("hist_calls_%d" % k, 0) > 0 for k in (2, 3, 4, 5)) and
                   all(hc.get("hist_rel_" + r, 0) > 0 for r in HIST_RELATIONS) and
                   hc.get("hist_consecutive_different_circuits_same_and_depth", 0) > 0 and
                   hc.get("hist_consecutive_fewer_wires", 0) > 0 and hc.get("hist_consecutive_more_wires", 0) > 0 and
                   hc.get("hist_hist_ops", 0) > 0, str(hc))
        rc = {k: v for k, v in c.items() if k.startswith("repr_")}
        rg = lambda k: rc.get("repr_" + k, 0)  # noqa: E731
        ctx.oblige("input representations: every session class (%s) ran with a NEGATIVE *big.Int, a magnitude wider than "
                   "the argument and both forms (IOArg.Parse text, direct value); a negative *big.Int at the first, a middle "
                   "and the last party of sessions with 2, 3, 4 and 5 parties; zero; negative values of arguments over 64 "
                   "bits and negative magnitudes over 64 bits; int, uint, bool, struct (with a negative member) and array "
                   "arguments; every value class (%s); wide-in circuits at 257 and 65537 bits; runi, histi and lvli ops "
                   "were replayed on the model" % (", ".join(REPR_CLASSES), ", ".join(REPR_VALUES)),
                   all(rg("class_" + k) > 0 and rg(k + "_negative_big_int") > 0 and rg(k + "_magnitude_wider_than_argument") > 0
                       and rg(k + "_form_text") > 0 and rg(k + "_form_direct") > 0 for k in REPR_CLASSES) and
                   all(rg("negative_%s_party" % k) > 0 for k in ("first", "middle", "last")) and
                   all(rg("calls_parties_%d" % k) > 0 for k in (2, 3, 4, 5)) and rg("zero") > 0 and
                   rg("negative_argument_over_64_bits") > 0 and rg("negative_magnitude_over_64_bits") > 0 and
                   all(rg("arg_" + k) > 0 for k in ("int", "uint", "bool", "struct", "array")) and
                   rg("struct_member_negative") > 0 and
                   all(rg("member_" + k) + rg("direct_" + k) > 0 for k in REPR_VALUES) and
                   rg("ext_wide_in_257") > 0 and rg("ext_wide_in_65537") > 0 and
                   rg("run_ops") > 0 and rg("hist_ops") > 0 and rg("lvli_ops") > 0,
                   str({k: v for k, v in rc.items() if not k.startswith("repr_rel_")}))
        ctx.coverage["programs"] = c.get("sess_sessions", 0)
        if ctx.widen:
            # widened search for a concrete failing input
            for s in range(ctx.seed + 7000, ctx.seed + 7003):
                for mode, n in (("degen", 120), ("ext", 1000), ("repr", 96), ("tb", 60), ("sess", 60), ("hist", 40)):
                    ops, out, meta = ctx.run_hx(mode, n, seed=s, tag="-widen", timeout=1700)
                    ctx.absorb_meta(meta, prefix="widen_")
                if ctx.fails:
                    break
    ctx.coverage["rule"] = (
        "sess: real gmw networks over loopback TCP, 2..5 parties, random start order and delays (leader listens first), "
        "circuits = fixed MPCL corpus + random MPCL programs (no / and %) compiled for the GMW target + synthetic layered "
        "circuits with AND batch sizes on word boundaries and INV gates; 'snap' sessions wait for the pools' stable level, "
        "snapshot them and are replayed on the model, 'race' sessions start Run while triples are still being generated; "
        "tb: tripleBatch for 2..5 parties, batch sizes 64..8192; pool: random Append/Get/Clear/arrival sequences with "
        "blocking Gets; hist: histories of 2..5 consecutive Run calls on ONE connected network (snap / race as above), the "
        "circuit of a call related to the previous one as: " + ", ".join(HIST_RELATIONS) + " (synthetic circuits of a given "
        "shape = input widths, per-level AND widths; some with wires no gate assigns, which keep the bit of an earlier call); "
        "every call's outputs, wire shares and the pool position after the whole history are judged and replayed on the "
        "model's fold over the Network state; ext: extreme circuits, one class per internal dimension of the implementation "
        "(deep = dependent AND chain with XOR/XNOR/INV mixed in and side gates, wide-and = one AND batch, wide-rest = one "
        "level of non-AND gates, many-out = output bits, wide-in = one party's input width), sizes 255/256/257, "
        "65535/65536/65537 and beyond (quick: depth 65537 and one of 65535/65536 as sessions, all of them and 131073, 262145 "
        "levels-only; thorough: every size as a session, depth 131073 as a session, 2^20+1 levels-only), inputs of the deep "
        "sessions sensitised (chosen first; operands picked by value so that the chain wire is 1 at almost every step), "
        "the level oracle (gate levels of the real AssignLevels are a topological schedule of Network.run) on every "
        "circuit of ext, sess and hist; repr: the inputs of every session mode in the forms the public API accepts - "
        "IOArg.Parse of decimal / 0x / 0b / 0o / signed texts and directly passed *big.Int values; per int / uint member "
        "of width w: " + ", ".join(REPR_VALUES) + " (wider: up to 130 bits beyond w; word boundaries: 2^32, 2^63, 2^64, "
        "2^65, 2^128 +-1); classes " + ", ".join(REPR_CLASSES) + " (compiled GMW programs for 2..5 parties with signed / "
        "unsigned / bool / struct / array arguments, synthetic circuits with re-declared arguments incl. 63..130-bit "
        "ones, histories of 2..5 calls, wide-in circuits of 257 / 65537 bits); one party per call (index = case mod "
        "parties) is forced to hold a negative *big.Int; reference = Circuit.Compute on the same member values. "
        "degen: degenerate session shapes planned by case index (class = case mod 10: " + ", ".join(DEGEN_CLASSES) + "; parties = "
        "2 + (case/10) mod 4; the position of the 0-bit / only / unread argument walks first..last with the case index; "
        "every 4th round in race mode): synthetic layered circuits with the degenerate dimension forced, MPCL programs with "
        "[0]byte / [0]uintN / empty-struct / unused / 1-bit arguments and constant / pass-through results compiled for the "
        "GMW target; judged as sess, plus Stats().Sent of every party over Run = the model's transcript. "
        "distinct = distinct op lines")
    ctx.assumptions += [
        "the bit-COT correlation r = s xor Delta0*b is a hypothesis of C10_triples_valid (property C06 proves it for the "
        "IKNP model when n % 64 = 0; tripleBatch sizes are 4096 and 8192 - checked as a fact; the tb harness re-checks it "
        "on every consumed word)",
        "goroutine / TCP timing is sampled, not enumerated: the theorems cover every arrival schedule of triple batches "
        "(C10_pool_lockstep) but the connection set-up of gmw.Network (accept/dial order) is only exercised",
        "privacy is not claimed (tripleBatch sends b and a xor Delta in clear)",
        "hang classification: a session is a suspect when no byte moved on any connection, no pool level changed and no "
        "party finished a phase for 60 s (or it ran 10 min); it is reported as c10-timeout only after a re-run ALONE "
        "(no other session in the harness) shows no progress for 120 s; nothing is launched after a confirmed hang",
        "degen sessions move a few hundred bytes: first-run stall limit 20 s, alone re-run 45 s (same progress signals)",
        "the leader's listener exists before a peer dials it (a peer that finds no leader returns an error by design)",
        "no-overflow side condition: the level theorems count in Nat; AssignLevels counts in circuit.Level = uint32. "
        "C10_levels_u32 / C10_levels_counter_exact: for AND depth < 2^32 the 32-bit loop IS the Nat loop; "
        "C10_levels_mod_not_topological: for every counter width k the schedule is not topological on the AND chain of "
        "depth 2^k + 1. The harness measures the real counter up to AND depth 262145 (levels) / 65537 (sessions; thorough "
        "131073): the real levels equal the Nat model's there",
        "wire store totalised: theorems carry SSA (single assignment, topological, indices < numWires), which the "
        "compiler output satisfies and the harness circuits are checked for by the reference evaluator",
    ]
    return ctx.finish(
        "Theorems (Props/C10.lean): for every n, all local randomness and all COT outputs satisfying the bit-COT "
        "correlation every dealt triple word satisfies (xor a)&(xor b) = xor c; TriplePool.Get removes exactly "
        "ceil(count/64) words of the stream whatever the arrival schedule; for every single-assignment circuit without OR "
        "gates, every input, every sharing randomness and valid pools with enough words, the level-wise evaluation keeps "
        "xor-of-shares = plain value on every wire and every party returns Circuit.compute; the same from ANY state a "
        "Network is in between two calls (arbitrary stale wire store, pool position) and, by induction, for every call of "
        "every history of calls on one Network (C10_history: outputs of call i = compute of circuit i on inputs i, pools = "
        "initial pools minus the first sum-of-needs words). Tie: the same Lean definitions "
        "replayed on (a) tripleBatch at 2..5 parties with shadow IKNP instances revealing sBits/rBits, (b) Triples.Append / "
        "TriplePool.Get op sequences incl. blocked Gets, (c) real TCP sessions: from the observed input shares and pool "
        "snapshots the model reproduces every party's complete wire-share vector, consumed word count and outputs, (d) "
        "histories of 2..5 Run calls on one Network: the model's runHist reproduces every party's complete wire store "
        "(bits left by earlier calls included) and outputs after every call and the words consumed by the whole history. "
        "(e) extreme circuits across 2^8 / 2^16 in AND depth, batch size, level width, outputs, input width: real gate "
        "levels = model levels, level oracle = topoCheck, every party's outputs = compute. (f) input representations: the "
        "op lines carry the signed decimals of every flattened member; the model (Model/GmwInt.lean: bigIntXor, "
        "bigIntBit mirror math/big Int.Xor / Int.Bit) reproduces the complete wire stores and outputs of sessions, "
        "histories and wide-input circuits for negative and oversized *big.Int inputs (C10_outputs_int, "
        "C10_outputs_args, C10_history_int: every party's output = compute on the Bit()s of the integers, any sign and "
        "magnitude; C10_abs_words_run_wrong: a reader of the magnitude words returns another value on -3). "
        "(g) degenerate shapes: sessions with 0-bit / 1-bit arguments, circuits without AND gates / gates / outputs complete "
        "with correct outputs, the model reproduces their wire stores, and the bytes every party sent during Run equal "
        "sentBytes of the model's transcript, in which every ordered pair of parties exchanges exactly one input-share "
        "message whatever the argument widths (C10_input_share_one_message_per_pair) and every receive is matched "
        "(C10_transcript_matched). "
        "Oracle on the real code: gate levels after AssignLevels(TargetGMW) are a topological schedule of Network.run "
        "(every circuit run), results = Circuit.Compute at every party, xor of shares = reference value on every wire, "
        "triple relation on pool snapshots / Pool.Get output / tripleBatch output, lockstep consumption, completion under a "
        "deadline, Close returns nil.")

"""C19 Peer-to-peer mesh always forms completely and consistently."""
import hashlib
import json
import os
import re
import sys

import vlib

LEVEL = "proof"

THEOREMS = [
    "Mpc.Mesh.reach_inv",
    "Mpc.C19_mesh_safe",
    "Mpc.C19_no_error_step",
    "Mpc.C19_mesh_progress",
    "Mpc.C19_measure_decreases",
    "Mpc.C19_terminates",
    "Mpc.C19_mesh_final",
    "Mpc.C19_final_quiet",
    "Mpc.C19_conn_id_one_byte",
    "Mpc.C19_fix_blocks_early_wait",
    "Mpc.C19_old_order_deadlock",
    "Mpc.C19_old_order_return_incomplete",
    "Mpc.C19_old_order_error",
    # data phase overlapping the setup phase (Model/MeshData.lean)
    "Mpc.Mesh.dreach_base",
    "Mpc.Mesh.dreach_conserved",
    "Mpc.C19_early_data_conserved",
    "Mpc.C19_early_data_delivered",
    "Mpc.C19_hello_reader_drops_early_data",
]

HOOK_POINTS = ["join", "lconnect", "waitdone", "info", "hello", "gotinfo", "dial", "accept", "accstore", "accdec",
               "accepted"]


def hooks_present(ctx):
    """The verif hooks of package p2p (hooks/c19-p2p-hooks.patch) must be in the tree."""
    p2p = os.path.join(vlib.REPO, "p2p")
    missing = []
    for f, tag in (("verif_point_on.go", "//go:build verif"), ("verif_point_off.go", "//go:build !verif")):
        path = os.path.join(p2p, f)
        if not os.path.exists(path) or tag not in open(path, errors="replace").read():
            missing.append(f)
    try:
        src = vlib.repo_file("p2p/network.go")
    except Exception as e:  # pragma: no cover
        src = ""
        missing.append("p2p/network.go: %s" % e)
    for ev in HOOK_POINTS:
        if 'verifPoint("%s"' % ev not in src:
            missing.append('verifPoint("%s", ...) in p2p/network.go' % ev)
    ctx.oblige("hooks present (p2p/verif_point_{on,off}.go and the verifPoint calls of hooks/c19-p2p-hooks.patch)",
               not missing, "missing: %s\napply /verif/hooks/c19-p2p-hooks.patch to %s" % (missing, vlib.REPO))
    return not missing


TIME_PATTERNS = [
    (r'^\s*(?:import\s+)?(?:\w+\s+)?"time"', 'import "time"'),
    (r'^\s*(?:import\s+)?(?:\w+\s+)?"context"', 'import "context"'),
    (r"\btime\.\w+", "use of package time"),
    (r"\bcontext\.\w+", "use of package context"),
    (r"\bSet(?:Read|Write)?Deadline\b", "Set*Deadline"),
    (r"\bDialTimeout\b|\bnet\.Dialer\b|\bListenConfig\b|\bKeepAlive\b", "net dial/listen timeout configuration"),
    (r"\b(?:[Tt]imeout|[Dd]eadline|Ticker|Timer|Sleep|AfterFunc)\b", "timeout/deadline/ticker/sleep identifier"),
]
WIDE_ALL = ",".join("%d:%d" % (n, m) for m in (5, 8, 15, 16, 17, 20, 33, 64) for n in (2, 3)) + ",4:17"
WIDE_QUICK = WIDE_ALL + ",2:256"
WIDE_THOROUGH = WIDE_ALL + ",2:128,3:128,2:255,2:256,3:256,5:17,6:9"
LATE_QUICK = "gap:6000"
LATE_THOROUGH = "gap:6000,gap:12000,start:6000,start:12000,leader:6000,leader:12000,gap:31000,leader:31000"
LATE_WIDE = LATE_THOROUGH + ",start:31000,gap:9000,gap:16000,gap:21000,leader:21000,gap:61000"


def strip_go_comments(src):
    src = re.sub(r"/\*.*?\*/", lambda m: "\n" * m.group(0).count("\n"), src, flags=re.S)
    out = []
    for line in src.split("\n"):
        # cut a // comment that is not inside a string literal (good enough for these files)
        q = False
        cut = len(line)
        i = 0
        while i < len(line) - 1:
            ch = line[i]
            if ch == '"' and (i == 0 or line[i - 1] != "\\"):
                q = not q
            elif not q and line[i:i + 2] == "//":
                cut = i
                break
            i += 1
        out.append(line[:cut])
    return "\n".join(out)


def time_independence(ctx):
    """The model has no clock: the mesh-formation code (network.go, peer.go and the Conn methods of
    protocol.go it calls during setup) must not depend on time.  A hit is a broken obligation and
    switches on the long-delay schedules of the widened search."""
    hits = []
    for rel in ("p2p/network.go", "p2p/peer.go", "p2p/protocol.go"):
        try:
            src = strip_go_comments(vlib.repo_file(rel))
        except Exception as e:
            hits.append("%s: unreadable (%s)" % (rel, e))
            continue
        for no, line in enumerate(src.split("\n"), 1):
            for pat, what in TIME_PATTERNS:
                if re.search(pat, line):
                    hits.append("%s:%d: %s: %s" % (rel, no, what, line.strip()[:100]))
                    break
    ctx.fact("mesh-formation code has no time dependence (no package time/context, no Set*Deadline, no dial/listen "
             "timeouts, no tickers/timers/sleeps in p2p/network.go, p2p/peer.go, p2p/protocol.go)", hits[:12], [])
    return not hits


def go_int(tok, consts, depth=0):
    """Value of a Go integer literal or of a package-level constant defined by literals, | and <<."""
    tok = tok.strip()
    if depth > 6:
        return None
    try:
        return int(tok, 0)
    except ValueError:
        pass
    if "|" in tok:
        vals = [go_int(t, consts, depth + 1) for t in tok.split("|")]
        return None if None in vals else eval("|".join(str(v) for v in vals))
    if "<<" in tok:
        a, b = tok.split("<<", 1)
        a, b = go_int(a, consts, depth + 1), go_int(b, consts, depth + 1)
        return None if a is None or b is None else a << b
    return go_int(consts[tok], consts, depth + 1) if tok in consts else None


def hello_id_coding(ctx):
    """The connection id must be encoded, bounded and decoded over the same range: the model's 0..255.
    Constants are resolved to their values and the expressions are looked for anywhere in network.go (not in a
    particular function, not with particular variable names).  Advisory: ids 0..255 are exercised by real meshes
    with up to 256 connections per pair (oracle); the rejection of larger ids lies outside the property's range."""
    src = strip_go_comments(vlib.repo_file("p2p/network.go"))
    flat = re.sub(r"\s+", " ", src)
    consts = dict(re.findall(r"^\s*(\w+)\s*=\s*([^\n]+?)\s*$", src, flags=re.M))
    got = {}
    m = re.search(r'if \w+ > (\w+) \{ return fmt\.Errorf\("invalid connection ID', flat)
    got["dial_rejects_above"] = go_int(m.group(1), consts) if m else None
    m = re.search(r"connMagic \| \(\w+ & (\w+)\)", flat)
    got["dial_id_mask"] = go_int(m.group(1), consts) if m else None
    if re.search(r":= int\(byte\(\w+\)\)", flat):
        got["accept_id_mask"] = 0xff
    else:
        m = re.search(r"connID := (?:int\()?\w+ ?& ?(\w+)", flat)
        got["accept_id_mask"] = go_int(m.group(1), consts) if m else None
    mm = go_int("connMagicMask", consts)
    got["bits_outside_magic_mask"] = None if mm is None else (~mm) & 0xffffffff
    cm = go_int("connMagic", consts)
    got["magic_low_bits_clear"] = None if cm is None or mm is None else (cm & ~mm & 0xffffffff) == 0
    create = re.sub(r"\s+", " ", vlib.go_func_body("p2p/network.go", r"Create\(") or "")
    got["numConns_upper_bound_in_Create"] = bool(re.search(r"numConns > ", create))
    want = {"dial_rejects_above": 0xff, "dial_id_mask": 0xff, "accept_id_mask": 0xff, "bits_outside_magic_mask": 0xff,
            "magic_low_bits_clear": True, "numConns_upper_bound_in_Create": False}
    ctx.advise("hello id coding: dial admits ids 0..0xff, encodes them with mask 0xff, acceptConn decodes the low byte, "
               "connMagicMask leaves exactly that byte free (model: helloId k = k % 256, dial rejects k > 0xff; theorems "
               "for m <= 256; decided for ids 0..255 by the meshes with up to 256 connections per pair)", got, want)


def body(func_re):
    b = vlib.go_func_body("p2p/network.go", func_re)
    return re.sub(r"\s+", " ", b) if b else ""


CONN_IO = ["SendUint32", "SendString", "Flush", "ReceiveUint32", "ReceiveString"]


def seq(ctx, func, methods=(), leaf=()):
    """Call sequence of a p2p function: same-package helpers inlined, receivers by declared type
    (harness/cmd/gofacts/callseq.go); Conn.Close (error paths) is not part of any sequence."""
    r = ctx.callseq("p2p", func, list(methods) or ["-"], leaf=list(leaf) + ["Close"])
    return [x for x in r if not x.endswith(".Close")] if isinstance(r, list) else r


def facts(ctx):
    """Shape of the Go code the model mirrors step by step.

    Semantic facts (obligations): call / message sequences extracted from the AST with same-package
    helpers inlined - unchanged by extracting or inlining helpers, renaming, named constants.
    Advisory facts: literal source text whose semantic content is decided by the trace correspondence
    and the oracle of this check; a drift only switches on the widened search."""
    hello = ["Conn.SendUint32", "Conn.SendUint32", "Conn.SendString", "Conn.Flush"]
    ctx.fact("dial: net.Dial, then the hello (uint32 magic|id, uint32 party id, string address, flush) on the new "
             "connection, then Peer.SetConn [call sequence]",
             seq(ctx, "Network.dial", ["Dial"], CONN_IO + ["SetConn"]), ["?.Dial"] + hello + ["Peer.SetConn"])
    ctx.fact("connectPeerToLeader: the same hello on connection 0, then reads uint32 numConns, uint32 count and per "
             "peer uint32 id + string address [call sequence]",
             seq(ctx, "Network.connectPeerToLeader", [], CONN_IO),
             hello + ["Conn.ReceiveUint32", "Conn.ReceiveUint32", "Conn.ReceiveUint32", "Conn.ReceiveString"])
    ctx.fact("acceptConn: reads the hello (uint32, uint32, string), stores with Peer.SetConn (directly and in addPeer) "
             "and only then Broadcasts: the store precedes the signal [call sequence]",
             seq(ctx, "Network.acceptConn", ["Broadcast"], CONN_IO + ["SetConn"]),
             ["Conn.ReceiveUint32", "Conn.ReceiveUint32", "Conn.ReceiveString", "Peer.SetConn", "Peer.SetConn",
              "sync.Cond.Broadcast"])
    ctx.fact("connectLeader: waits on the condition variable, then sends per peer uint32 numConns, uint32 count and per "
             "other peer uint32 id + string address, flush [call sequence]",
             seq(ctx, "Network.connectLeader", ["Wait"], CONN_IO),
             ["sync.Cond.Wait", "Conn.SendUint32", "Conn.SendUint32", "Conn.SendUint32", "Conn.SendString", "Conn.Flush"])
    ctx.fact("connectPeer: info exchange with the leader, then the accept goroutine, then the dials, then the wait "
             "[call sequence]",
             seq(ctx, "Network.connectPeer", ["Wait"], ["connectPeerToLeader", "accept", "dial"]),
             ["Network.connectPeerToLeader", "Network.accept", "Network.dial", "sync.Cond.Wait"])
    ctx.fact("Connect: starts the accept goroutine (leader), then runs connect(k) [call sequence]",
             seq(ctx, "Network.Connect", [], ["accept", "connect"]), ["Network.accept", "Network.connect"])

    # ---- advisory: literal text, anywhere in the file (helpers may move it around)
    net = re.sub(r"\s+", " ", strip_go_comments(vlib.repo_file("p2p/network.go")))
    acc = body(r"\(nw \*Network\) acceptConn\(")
    marks = [acc.find("nw.need[connID] == 0"), acc.find("nw.m.Unlock()", acc.find("too many connections")),
             acc.find("peer.SetConn(connID, conn)"), acc.find("nw.addPeer(peer)"),
             acc.find("nw.m.Lock()", acc.find("nw.addPeer(peer)")), acc.find("nw.need[connID]--"),
             acc.find("nw.c.Broadcast()")]
    ctx.advise("acceptConn text: check need==0, Unlock, SetConn, addPeer, Lock, need--, Broadcast (model steps accTake / "
               "accStore / accDec; decided by the trace correspondence and the forced schedules)",
               all(o >= 0 for o in marks) and marks == sorted(marks), True)
    ctx.advise("text: wait loop `for nw.need[connID] > 0 && !nw.listenerDone { nw.c.Wait() }`; dial loop skips the leader "
               "for connID 0 and every id <= self (decided by the d.* events of the trace correspondence)",
               [net.count("for nw.need[connID] > 0 && !nw.listenerDone { nw.c.Wait() }") >= 1,
                "if peer.ID == 0 { if connID == 0 { continue } } else if peer.ID <= self.ID { continue }" in net],
               [True, True])
    ctx.advise("text connectLeader: only connID 0 sends the info: len(need), len(Peers)-2, every peer but self and the "
               "recipient (decided by the i.* / g.* events of the trace correspondence)",
               ["if connID > 0 { return nil }" in net, "SendUint32(len(nw.Peers) - 2)" in net,
                "if i.ID == nw.Self.ID || i.ID == peer.ID { continue }" in net], [True] * 3)
    ctx.advise("text Connect / connectPeerToLeader: need[i] = NumParties-1 (leader), NumParties = 2+n, numAccept counts "
               "lower ids, need[i] = numAccept (decided by the w.* / g.* events and the oracle)",
               ["nw.need[i] = nw.NumParties - 1" in net, "nw.NumParties = 2 + n" in net,
                "if self.ID > id { numAccept++ }" in net, "nw.need[i] = numAccept" in net], [True] * 4)
    peer = re.sub(r"\s+", " ", strip_go_comments(vlib.repo_file("p2p/peer.go")))
    ctx.advise("text Peer.SetConn / addPeer: refuses an occupied slot, stores; id < NumParties; new peer appended and "
               "sorted by id (decided by the oracle: table shape, pings)",
               ["if p.Conns[connID] != nil { return" in peer, "p.Conns[connID] = conn" in peer,
                "if peer.ID >= nw.NumParties" in net, "nw.Peers = append(nw.Peers, peer)" in net,
                "return nw.Peers[i].ID < nw.Peers[j].ID" in net], [True] * 5)


def replay_exact(ctx):
    """`bin/check C19 --replay F`: F holds the spec of one failing session (parties, connections, join order, start
    offsets, delay profile and seed, gates, data plan).  Exactly that session is run again on the real code (up to 12
    times: what the OS scheduler adds is not recorded) and its trace is validated on the model; a run that fails again
    decides the check."""
    if "--replay" not in sys.argv:
        return False
    try:
        rp = sys.argv[sys.argv.index("--replay") + 1]
        rp = rp if os.path.isabs(rp) else os.path.join(vlib.VERIF, rp)
        f = json.load(open(rp)).get("failure") or {}
    except Exception:
        return False
    if not f.get("spec"):
        return False
    cp = os.path.join(vlib.VERIF, ".work", "C19-replay-%d.json" % os.getpid())   # finish() rewrites the replay file
    json.dump({"failure": {"spec": f["spec"], "sig": f.get("sig")}}, open(cp, "w"))
    ops, out, meta = ctx.run_hx("replay", 12, extra_args=["-extra", cp], tag="-replay")
    os.remove(cp)
    log = meta.pop("harness_log", "")
    rc = meta.pop("harness_rc", 0)
    print("replay of the recorded session (%s):\n%s" % (f.get("sig"), vlib.indent(log[-2500:])))
    if rc not in (0, 1):
        return False
    ctx.absorb_meta(meta, prefix="replay_")
    if os.path.exists(ops) and os.path.getsize(ops) > 0:
        ctx.correspond("replayed session: recorded trace is a run of the model with the observed outcome", ops, out)
    if not ctx.fails:
        print("the replayed session no longer fails; running the full check")
        return False
    for g in ctx.fails:
        g["found_by"] = "exact replay of " + os.path.basename(rp)
    ctx.coverage["rule"] = "replay of one recorded session (the full check was not run)"
    return True


def run(ctx):
    ctx.prove("MpcVerif.Props.C19", THEOREMS)
    if ctx.tier == "thorough":
        ctx.leanchecker("MpcVerif.Props.C19")
    ctx.build_drv()
    have_hooks = hooks_present(ctx)
    facts(ctx)
    timeless = time_independence(ctx)
    hello_id_coding(ctx)
    quick = ctx.tier == "quick"
    n = 600 if quick else 5000
    par = "8" if quick else "12"
    seeds = [ctx.seed] if quick else [ctx.seed, ctx.seed + 1000, ctx.seed + 2000]
    if have_hooks and ctx.build_hx():
        if replay_exact(ctx):
            return ctx.finish("Replay: the recorded session (same parties, connections, join order, start offsets, delay "
                              "seed, gates and data plan) was run again on the real p2p.Create/Join/Connect; the oracle "
                              "fails again.")
        for s in seeds:
            # long-delay schedules (one party far later than any plausible timeout) run in parallel
            # with the regular sessions of the first seed: one in the quick tier, eight in thorough
            late = (LATE_QUICK if quick else LATE_THOROUGH) if s == seeds[0] else ""
            # meshes with many connections per pair (5 .. 256, around the nibble and byte boundaries)
            wide = WIDE_QUICK if quick else WIDE_THOROUGH
            ops, out, meta = ctx.run_hx("mesh", n, seed=s, extra_args=["-par", par, "-wide", wide] +
                                        (["-late", late] if late else []))
            ctx.absorb_meta(meta)
            ctx.correspond("recorded traces are runs of the model with the observed outcome (seed %d)" % s, ops, out)
            for line in open(ops, errors="replace"):
                ctx.distinct.add(hashlib.sha1(line.encode()).digest())
        # the schedules of the old-ordering witnesses, forced on the real code: since the repair
        # (b60eeb5) they must no longer produce the failure
        ops, out, meta = ctx.run_hx("witness", 1 if quick else 3, seed=ctx.seed)
        ctx.absorb_meta(meta)
        c = meta.get("counters") or {}
        ctx.correspond("forced schedules of the old-ordering witnesses: model verdict = real outcome", ops, out)
        for w, thm in (("deadlock", "C19_old_order_deadlock"), ("early-return", "C19_old_order_return_incomplete"),
                       ("bad-list", "C19_old_order_error"),
                       ("early-data", "C19_hello_reader_drops_early_data")):
            ok = c.get("witness_%s_gone" % w, 0) > 0 and c.get("witness_%s_reproduced" % w, 0) == 0 and \
                c.get("witness_%s_other" % w, 0) == 0
            ctx.oblige("forced schedule of the witness %s (%s) does not fail on the real code" % (w, thm),
                       ok, "counters: %s" % c)
        cc = ctx.coverage.get("counters", {})
        combos = sorted(k for k in cc if re.match(r"n\d_m\d$", k))
        ctx.coverage["n_m_combinations_seen"] = len(combos)
        skipped = cc.get("sessions_skipped_after_6_failing_sessions", 0)
        ctx.oblige("generator covered all 20 combinations of 2..6 parties x 1..4 connections",
                   len(combos) == 20 or skipped > 0, str(combos))
        ctx.coverage["data_sessions"] = cc.get("data_sessions", 0)
        ctx.coverage["data_streams_flushed_before_the_peer_accepted"] = cc.get("data_streams_flushed_before_accept", 0)
        ctx.oblige("generator reached the overlapped class: sessions in which a party had flushed data on a connection "
                   "before the peer accepted it (>= 20), with payloads of every size class",
                   skipped > 0 or
                   cc.get("data_sessions_with_data_flushed_before_accept", 0) >= 20 and
                   all(cc.get("data_before_accept_class_" + k, 0) > 0 for k in ("tiny", "small", "kb", "mixed", "bulk")),
                   str({k: v for k, v in cc.items() if k.startswith("data_")}))
        ctx.oblige("every session's ports were available (no exhausted retries)",
                   not any(f.get("sig") == "c19-no-ports" for f in ctx.fails), "")
        if ctx.widen:
            # widened search for a concrete failing session (oracle only)
            for s in range(ctx.seed + 7000, ctx.seed + 7003):
                late = LATE_WIDE if s == ctx.seed + 7000 else ""
                ops, out, meta = ctx.run_hx("mesh", 400, seed=s, tag="-widen",
                                            extra_args=["-par", "20", "-wide", WIDE_THOROUGH] +
                                            (["-late", late] if late else []))
                ctx.absorb_meta(meta, prefix="widen_")
                if ctx.fails:
                    break
    ctx.coverage["rule"] = (
        "one session = real p2p.Create/Join/Connect of n parties on loopback TCP in a child process; (n, m) cycles "
        "through all of 2..6 x 1..4; join order = seeded permutation; start mode seq (Joins in order, Connects "
        "concurrent) or conc (every party its own goroutine with seeded start offsets, leader first/last/among); 8 "
        "delay profiles (none, light, heavy, dialslow, acceptslow, oneslow, midaccept) derived from the case seed and "
        "injected at the hook points before dial / accept / hello / info (midaccept also inside acceptConn between "
        "the check of need[k] and the store); oracle per session: every Connect returns nil before the deadline, table at return and final table "
        "complete (n peers, exactly m non-nil connections each, no *Conn in two slots, need all 0), tagged ping "
        "(from,to,k) on every Peers[q].Conns[k] in both directions arrives on the peer's Conns[k] for the sender; "
        "plus meshes with many connections per pair (n = 2, 3: m = 5, 8, 15, 16, 17, 20, 33, 64; n = 4: m = 17; "
        "n = 2: m = 256; thorough also m = 128, 255 and n = 3: m = 256) "
        "plus long-delay sessions (one party's Connect 6 s after its Join in the quick tier; gap/start/leader lateness "
        "of 6, 12, 31 s in the thorough tier); "
        "DATA PHASE OVERLAPPING THE SETUP PHASE (two sessions out of three, every long-delay session, every other "
        "many-connection session): the moment a party's own Connect returns - no barrier between the parties - it "
        "starts one sender and one receiver per connection; stream of sender p on slot (q, k) = seeded length of class "
        "tiny (1..8 bytes: same TCP segment as the hello), small (9..208), kb (900..1199), mixed (0 / tiny / small / kb "
        "/ 4..7 KB), bulk (60..72 KB, across the 64 KiB write buffer), big (1 MiB +-500, across the read buffer), "
        "bytes = fixed function of (p, q, k, offset), written with a seeded mix of SendByte/SendUint16/SendUint32 in "
        "1..3 bursts, flushed per call or per burst; oracle per stream: the receiver reads exactly the sender's bytes "
        "from ITS slot (sender, k), in order, none lost (no byte anywhere for 5 s = lost), none wrong, and the tagged "
        "pings that follow on the same connections stay aligned (no surplus byte); measured: streams whose first burst "
        "was flushed before the accepting end logged the accept of that connection (obligation: >= 20 sessions, every "
        "size class); distinct = distinct recorded traces")
    ctx.assumptions += [
        "TCP modelled as: a connection becomes acceptable when its hello is sent, accept order arbitrary (the real "
        "accept loop takes connections in establishment order and blocks on a missing hello: fewer behaviours); "
        "sync.Cond wake-ups modelled as the waitDone step being enabled whenever need[k] = 0",
        "a dial (net.Dial, hello, SetConn on the dialler's own slot) is one model step; addresses = party ids",
        "the unlocked reads of nw.Peers in connectLeader are atomic snapshots in the model (they happen after "
        "need[0] = 0, i.e. after the last append: proved as part of the invariant)",
        "in a recorded trace the store of an accepted connection is placed directly before its need[k]-- (it has no "
        "hook of its own; it lies between the hooks accepted and accdec on one goroutine)",
        "real timing is sampled (seeded delays + OS scheduling), not enumerated",
        "m <= 256: the connection id travels in one byte of the hello word and dial rejects ids above 0xff; Create/Join "
        "do not bound numConns, so m > 256 fails in dial ('invalid connection ID') - outside the theorems and the "
        "property's range; the four constants of the coding are compared on every run",
        "the model has no clock: that the mesh-formation code does not depend on time is a structural fact extracted "
        "from p2p/network.go, peer.go, protocol.go on every run, backed by long-delay sessions (a party 6 s .. 31 s late "
        "between Join and Connect, before Join, or the leader late; up to 61 s in the widened search)",
        "Create precedes every Join (otherwise Join returns 'connection refused'); every party calls Connect",
        "data layer: the payload of a connection and direction is a byte queue (kernel socket, then the ReadBuf of the "
        "*Conn that read the hello and is stored, then the application); the bytes of the hello and of the network info "
        "are not represented; a send is one step (the harness logs S before the first byte is written, so the model "
        "may hold bytes the real socket does not hold yet: reads take 'at most' what is there); TCP delivers in order "
        "and loses nothing; the Conn codec itself (Send*/Receive*/Fill/Flush) is C11's subject",
        "a party uses a connection only after its own Connect returned (the property's 'data sent on it'); one sender "
        "and one receiver goroutine per *Conn (Conn is not safe for concurrent senders)",
    ]
    ctx.trusted = vlib.DEFAULT_TRUSTED + [
        "the verif hooks in p2p (event log + delay points; no-ops without the build tag), Linux loopback TCP",
    ]
    return ctx.finish(
        "Lean: inductive invariant of the mesh transition system for every n >= 2, 1 <= m <= 256 and every "
        "interleaving of the code as it is, including every interleaving inside acceptConn (check / store / "
        "decrement+signal as separate steps) (reach_inv); from it mesh_safe (no error path, every table entry is the "
        "canonical connection under the same k at both ends, none lost), mesh_progress (deadlock freedom + a measure "
        "that every step decreases, so every execution is finite and ends with every Connect returned), mesh_final "
        "(table complete when Connect returns; k-th <-> k-th). The ordering before the repair b60eeb5 (signal before "
        "store) is kept as events oldDec/oldStore only to state what the repair removed (C19_old_order_*); their "
        "schedules are forced on the real code on every run and must no longer fail. Tie: every recorded event trace "
        "of real sessions is validated as a run of the model that ends final, with every table complete at its "
        "return event. Data phase overlapping the setup phase (Model/MeshData.lean over the same transition system: "
        "per connection and direction socket queue from the dial on, ReadBuf of the accepted Conn, per slot sent / "
        "received sequences; send enabled as soon as the sender's own Connect returned): C19_early_data_conserved "
        "(received ++ ReadBuf ++ socket of slot (q, k) at p = sent on slot (p, k) at q, in every reachable state, every "
        "split of the stream into reads incl. the read that fetches the hello), C19_early_data_delivered (prefix at all "
        "times, equal once drained, send enabled whatever the peer does, receive yields everything), negation witness "
        "C19_hello_reader_drops_early_data for an accept that reads the hello through a reader that is not the stored "
        "connection (its schedule is forced on the real code on every run and must deliver). Tie: the S / R / T tokens "
        "of every data session are replayed on the data layer (byte counts and checksums per stream). Structural facts pin the statement order of acceptConn/dial/connectPeer/connectLeader/"
        "SetConn/addPeer.")

"""C13 Input and output value encoding is lossless and consistent."""
import hashlib
import json
import os
import re
import sys

import vlib

sys.path.insert(0, os.path.dirname(os.path.abspath(__file__)))
from t1 import run_t1  # noqa: E402  (T1 leaf translator tie, checks/t1.py)

LEVEL = "proof"

THEOREMS = [
    # bit-level primitives
    "Mpc.IoArg.testBit_setBit",
    "Mpc.IoArg.testBit_writeBits",
    "Mpc.IoArg.testBit_lowBits",
    # textual form = Go-value form
    "Mpc.C13_int_wire_bits_parse_eq_set",
    "Mpc.C13_old_setInt_witness",
    "Mpc.C13_parse_array_elements",
    "Mpc.C13_set_bytes_elements",
    "Mpc.C13_array_wire_bits_parse_eq_set",
    # members
    "Mpc.C13_parse_compound_wires",
    "Mpc.C13_parse_member_independent",
    "Mpc.C13_set_compound_wires",
    "Mpc.C13_set_member_independent",
    "Mpc.C13_compound_wire_bits_parse_eq_set",
    "Mpc.C13_member_agreement_int",
    "Mpc.C13_member_agreement_bool",
    "Mpc.C13_set_spill_case_now_correct",
    # sizes
    "Mpc.C13_bitLen_spec",
    "Mpc.C13_sizes_agree_partial",
    "Mpc.C13_old_bitLen_2_3_witness",
    "Mpc.C13_sizes_negative_witness",
    "Mpc.C13_inferred_size_uint",
    "Mpc.C13_inferred_size_slice",
    # decoding
    "Mpc.C13_result_inverts_uint",
    "Mpc.C13_result_inverts_int",
    "Mpc.C13_result_inverts_bool",
    "Mpc.C13_result_inverts_array",
    "Mpc.C13_result_inverts_array_int",
    "Mpc.C13_result_pure",
    "Mpc.C13_old_result_not_pure_witness",
    "Mpc.C13_result_nested_array_decodes",
    "Mpc.C13_split_spec",
    # size inference with struct members (InstantiateWithSizes on type trees, the main-argument path)
    "Mpc.C13_instantiate_identity_on_sized",
    "Mpc.C13_instantiate_touches_only_unsized",
    "Mpc.C13_instantiate_sized_members_keep_type",
    "Mpc.C13_instantiate_member_width",
    "Mpc.C13_old_instantiate_nested_sizes_witness",
    "Mpc.C13_mainarg_short_literal_keeps_layout",
]

# op kinds whose oracle is a function of the op line alone: the harness re-runs them on the real code (`c13 judge`)
JUDGEABLE = ("insts", "inst", "mainarg", "split")


def distinct_ops(ctx, ops):
    """distinct = distinct op lines; non-trivial = carries at least one value
    (not an empty list) and is not one of the fixed corpus lines."""
    for line in open(ops, errors="replace"):
        parts = line.split()
        if len(parts) >= 3 and parts[-1] != "-" and not re.match(r"c13 result s8\.0 \d+$", line.strip()):
            ctx.distinct.add(hashlib.sha1(line.encode()).digest())


def judge_ops(ctx, lines, tag, found_by):
    """Route op lines through the implementation-side oracle of their kind: the harness re-runs each line on the
    real code and judges the outcome, so a model/implementation disagreement on such an op is reported with the
    concrete input instead of as a bare broken obligation."""
    lines = [l for l in lines if len(l.split()) > 1 and l.split()[1] in JUDGEABLE]
    if not lines or not getattr(ctx, "hx", None):
        return None
    path = os.path.join(ctx.work, "judge%s-%d.in" % (tag, ctx.seed))
    with open(path, "w") as f:
        f.write("\n".join(lines) + "\n")
    _, _, meta = ctx.run_hx("judge", 0, extra_args=["-extra", "ops=" + path], tag=tag)
    for f in meta.get("oracle_fails") or []:
        f["found_by"] = found_by
    ctx.absorb_meta(meta, prefix="judge_")
    return meta


def replay_exact(ctx):
    """`bin/check C13 --replay F`: when F holds a failure with a judgeable op line (a type tree + size vector, or a
    declared main argument + its input strings), re-run exactly that case on the real code before the seeded run."""
    if "--replay" not in sys.argv:
        return
    try:
        rp = sys.argv[sys.argv.index("--replay") + 1]
        rp = rp if os.path.isabs(rp) else os.path.join(vlib.VERIF, rp)
        f = json.load(open(rp)).get("failure") or {}
    except Exception:
        return
    op = f.get("op") or ""
    if len(op.split()) < 2 or op.split()[1] not in JUDGEABLE:
        return
    meta = judge_ops(ctx, [op], "-replay", "exact replay of " + os.path.basename(rp))
    fails = (meta or {}).get("oracle_fails") or []
    print("replayed case of %s: %s" % (os.path.basename(rp), clip_op(op)))
    if f.get("src"):
        print(vlib.indent(f["src"].rstrip()))
        print("    inputs: %s" % json.dumps(f.get("inputs")))
    if fails:
        g = {k: v for k, v in fails[0].items() if k not in ("src", "op")}
        print("  still fails on the real code: %s" % json.dumps(g, sort_keys=True)[:1500])
    else:
        print("  the case no longer fails on the real code")


def clip_op(op):
    return op if len(op) < 400 else op[:400] + "..."


def facts(ctx):
    """Cheap structural facts the model's shape relies on (T2)."""
    body = vlib.go_func_body("circuit/ioarg.go", r"bitLen\(")
    ctx.fact("bitLen loop header", re.findall(r"for i := 63; i > (\d+); i--", body or ""), ["0"])
    body = vlib.go_func_body("circuit/ioarg.go", r"setInt\(")
    ctx.fact("setInt writes exactly t.Bits bits", re.findall(r"for i := 0; i < (\w+); i\+\+", body or ""), ["bits"])
    ctx.fact("setInt: bits is t.Bits, sign extension above bit 63, advances by bits",
             [bool(re.search(r"bits := int\(t\.Bits\)", body or "")),
              bool(re.search(r"if i < 64 \{\s*bit = uint\(\(ival >> i\) & 0x1\)\s*\} else if negative \{\s*bit = 1", body or "")),
              bool(re.search(r"return ofs \+ bits, nil", body or ""))], [True, True, True])
    body = vlib.go_func_body("result.go", r"Result\(")
    ctx.fact("Result's TInt branch computes the sign fix into a fresh big.Int",
             bool(re.search(r"result = new\(big\.Int\)\.Sub\(tmp, result\)\s*\n\s*result\.Neg\(result\)", body or ""))
             and not re.search(r"^\s*result\.Sub\(tmp, result\)", body or "", flags=re.M), True)
    ctx.fact("Result's element-type default branch asks Result for the element's Go type",
             bool(re.search(r"default:\s*(//[^\n]*\n\s*)*elementType = reflect\.TypeOf\(Result\(new\(big\.Int\),", body or "")), True)
    src = vlib.repo_file("circuit/ioarg.go")
    ctx.fact("reHexInput pattern", re.findall(r"reHexInput = regexp\.MustCompilePOSIX\(`([^`]*)`\)", src),
             ["^([[:digit:]]+)x([[:xdigit:]]*)$"])
    src = vlib.repo_file("types/parse.go")
    ctx.fact("types.Parse patterns", re.findall(r"MustCompilePOSIX\(`([^`]*)`\)", src),
             [r"^\[([[:digit:]]*)\](.+)$", r"^([[:alpha:]]+)([[:digit:]]*)$"])


def run(ctx):
    ctx.prove("MpcVerif.Props.C13", THEOREMS)
    run_t1(ctx, ["C13"])          # circuit.bitLen = IoArg.bitLen
    if ctx.tier == "thorough":
        ctx.leanchecker("MpcVerif.Props.C13")
    ctx.build_drv()
    facts(ctx)
    if ctx.tier == "quick":
        plan = [("inst", 4000, ctx.seed), ("all", 30000, ctx.seed)]
    else:
        plan = [("inst", 60000, ctx.seed), ("inst", 60000, ctx.seed + 6000),
                ("all", 300000, ctx.seed), ("all", 300000, ctx.seed + 1000), ("enc", 200000, ctx.seed + 2000),
                ("result", 150000, ctx.seed + 3000), ("sizes", 60000, ctx.seed + 4000), ("misc", 100000, ctx.seed + 5000)]
    if ctx.build_hx():
        replay_exact(ctx)
        for mode, n, s in plan:
            ops, out, meta = ctx.run_hx(mode, n, seed=s)
            ctx.absorb_meta(meta)
            kept = ctx.correspond("Parse/Set/Sizes/InputSizes/Result/Split/Instantiate/types.Parse/main argument "
                                  "(%s, seed %d)" % (mode, s), ops, out, maxkeep=40)
            distinct_ops(ctx, ops)
            if kept and not any(not ctx.is_known(f) for f in ctx.fails):
                # the disagreeing ops go through the oracle of their kind: concrete input instead of a bare obligation
                want = {d["index"] for d in kept}
                with open(ops, errors="replace") as fo:
                    lines = [l.rstrip("\n") for i, l in enumerate(fo) if i in want]
                judge_ops(ctx, lines, "-%s" % mode,
                          "oracle re-run of ops on which model and implementation disagree (%s, seed %d)" % (mode, s))
        if ctx.broken and not any(not ctx.is_known(f) for f in ctx.fails):
            # widened search for a concrete failing input: focused generators, more seeds
            for k, mode in enumerate(["inst", "enc", "result", "sizes", "misc", "inst", "enc", "result"]):
                ops, out, meta = ctx.run_hx(mode, 20000, seed=ctx.seed + 7000 + k, tag="-widen")
                ctx.absorb_meta(meta, prefix="widen_")
                if any(not ctx.is_known(f) for f in ctx.fails):
                    break
        c = ctx.coverage.get("counters", {})
        need = ["array_len0", "array_short_literal", "compound", "int_wide_true_neg_true", "int_wide_false_neg_true",
                "spell_hex", "spell_dec", "spell_bin", "arrspell_hex", "arrspell_dec", "independence_parse",
                "independence_set", "result_array_len0", "result_string", "op_flow", "op_split", "op_inst", "op_ty",
                "any_parse_err_panic", "any_set_err_toomany", "sizes_class_two-or-three", "sizes_class_negative",
                "result_nil_outputs", "result_nested_roundtrip", "corpus_witnesses", "corpus_string_bytes",
                # size inference with struct members
                "op_insts", "op_mainarg", "inst_corpus", "mainarg_roundtrip", "mainarg_set",
                "decl_struct_mixing_sized_and_unsized", "decl_nested_struct", "decl_array_of_struct", "decl_slice",
                "decl_unsized_int", "decl_top_leaf", "mainarg_sized_literal_shorter", "mainarg_sized_literal_equal",
                "mainarg_sized_literal_longer", "mainarg_sized_literal_empty", "mainarg_literals_toomany",
                "insts_struct", "insts_perturbed", "insts_arbitrary_tree", "insts_err_count", "insts_err_panic",
                "insts_err_unsupported"]
        missing = [k for k in need if not c.get(k)]
        ctx.oblige("generator reached 0-length arrays, short literals, compounds, wide negative ints, hex/decimal/"
                   "binary spellings, error and panic paths", not missing, "not reached: %s" % missing)
    ctx.coverage["rule"] = (
        "enc: 1..5 leaf members (bool, int/uint of width 1..130 biased to 1,8,16,32,63..66,100,127..130, arrays/slices "
        "of 0..20 elements of width 1..130, short literals) with boundary-biased in-range values, a textual form "
        "(decimal/0x/0X/0b/0o/sign/underscore) and a Go-value form; any: arbitrary (also ill-formed, nested) infos, "
        "junk strings and dynamically mistyped values; result: encode/decode round trips plus arbitrary cell contents, "
        "two calls on one *big.Int; sizes: value/decimal-text pairs; misc: Split, InstantiateWithSizes, types.Parse and "
        "the InputSizes->Instantiate->Parse flow; inst: (a) InstantiateWithSizes called on type trees (structs of 1..5 "
        "members mixing sized and unsized ones, nested structs, arrays of structs, slices, single leaves; bookkeeping "
        "fields perturbed; arbitrary ill-formed trees for the error paths) with size vectors whose entries are shorter "
        "than / equal to / longer than the declared size, zero, or missing, judged by: shape kept, sized leaves "
        "unchanged, unsized leaf k sized from entry k, offsets = running sums, total = sum; (b) a synthesized MPCL "
        "program whose garbler argument has such a type is compiled with the sizes InputSizes infers from one literal "
        "per member (empty / short / full / zero-padded / too long; decimal, 0x, 0b spellings), then Parse, Set, "
        "circ.Compute and mpc.Result: every sized member keeps its declared type, every unsized member gets the "
        "written size, every member sits on its declared wires, the Go-value form gives the same wires, decoding "
        "returns the values. distinct = distinct op lines carrying at least one value.")
    ctx.assumptions += [
        "big.Int.SetString(s, 0), regexp matching and unicode.IsPrint are taken as given (SetString's outcome is an "
        "input of the model; the two POSIX patterns and the Latin-1 IsPrint table are re-implemented in the model and "
        "compared on every run)",
        "types.Size / int quantities are modelled as Nat: negative sizes and int32 overflow of ArraySize*Bits are out "
        "of scope",
        "the wire view of a *big.Int is Bit(0..Bits-1), which is how garbler.go / evaluator.go / computer.go read it",
        "Go-value forms are those IOArg.Set accepts: bool, int8..uint64, []byte, nil",
        "struct outputs fall through to Result's default branch (a formatted string); no inversion is claimed for them",
        "main-argument path: the declared type handed to the model is the harness's reading of the declaration "
        "(TypeInfo.Resolve / defineType: offsets = running sums, IsConcrete false exactly for int/uint without width and "
        "slices); the instantiated argument printed by the real compiler is compared with the model's on every case",
        "unsized signed `int` members are given literals with a leading zero bit and unsized members no negative values "
        "(InputSizes ignores the sign: listed finding C13-sizes-negative-values)",
    ]
    return ctx.finish(
        "Theorems (Props/C13.lean) over the executable Lean model of IOArg.Parse/Set, Sizes/InputSizes/bitLen, IO.Split "
        "and mpc.Result: Parse puts exactly the w-bit groups of the written number on the element wires in order and "
        "pads short literals with zeros; a compound's wires are the concatenation of its members' wires at the running "
        "offset (member independence); Set equals that encoding for every value of an int8..uint64 kind, bool, []byte, nil; Sizes = "
        "InputSizes = bit length for all non-negative values (negative values: known finding); Result inverts the "
        "encoding for every width, decodes nested arrays, and is pure and repeatable for every type and cell content. Tie: the same op lines are run on the real Go functions and "
        "on the compiled model and compared line by line (values, error kinds, panics). Oracle: the harness's own "
        "reference encoder (two's complement little-endian per element, declaration order) against the wires of the "
        "real Parse and Set, member perturbation, Sizes vs InputSizes vs written width, decode(encode v) = v, "
        "deep-copy comparison of the *big.Int across two Result calls. Size inference with struct members: "
        "InstantiateWithSizes is the identity on sized types and touches only unsized leaves (induction over the type "
        "tree, Ty.inst in Model/IoInst.lean), the result has the struct layout, sized members keep their Info in the "
        "flattened argument; tied by the insts / mainarg ops (real InstantiateWithSizes, real compile of a synthesized "
        "program) and judged on the real results; ops on which model and implementation disagree are re-run through "
        "the oracle of their kind (c13 judge) so that the report carries the concrete input. Every unsized leaf, at any "
        "nesting depth, is sized from the entry of the input it receives (C13_instantiate_member_width; the defect of "
        "the old struct loop, repaired by 4a72a07, is C13_old_instantiate_nested_sizes_witness).")

"""C12 Constant folding equals circuit evaluation."""
import concurrent.futures
import hashlib
import json
import os
import re
import subprocess
import sys

import vlib

sys.path.insert(0, os.path.dirname(os.path.abspath(__file__)))
from t1 import run_t1  # noqa: E402  (T1 leaf translator tie, checks/t1.py)

LEVEL = "proof"

THEOREMS = [
    "Mpc.C12_fold_eq_circuit",
    "Mpc.C12_fold_eq_circuit_partial",
    "Mpc.C12_fold_eq_circuit_wide",
    "Mpc.C12_fold_wrap_every_width",
    "Mpc.C12_fold_add_every_width",
    "Mpc.C12_fold_sub_every_width",
    "Mpc.C12_fold_mul_every_width",
    "Mpc.C12_fold_and_every_width",
    "Mpc.C12_fold_or_every_width",
    "Mpc.C12_fold_xor_every_width",
    "Mpc.C12_fold_andnot_every_width",
    "Mpc.C12_fold_shl_every_width",
    "Mpc.Fold.fold_wrap_wide",
    "Mpc.Fold.fold_shl_wide",
    "Mpc.Fold.fold_neg_wide",
    "Mpc.Fold.fold_cmp_all",
    "Mpc.Fold.fold_shr_wide",
    "Mpc.Fold.fold_div_mod_wide",
    "Mpc.C12_fold_wrap_ops",
    "Mpc.C12_fold_wrap_assignable",
    "Mpc.C12_fold_add",
    "Mpc.C12_add_carry_lost_old_witness",
    "Mpc.C12_fold_shl",
    "Mpc.C12_fold_shr_partial",
    "Mpc.C12_shr_witness",
    "Mpc.C12_fold_div_mod_partial",
    "Mpc.C12_div_mod_masked_operands_witness",
    "Mpc.C12_fold_cmp_partial",
    "Mpc.C12_cmp_sign_from_size_witness",
    "Mpc.C12_fold_neg",
    "Mpc.C12_fold_bool_ops",
    "Mpc.C12_text_wrap_nonneg",
    "Mpc.C12_text_div_mod_nonneg",
    "Mpc.Fold.typedConst_pos",
    "Mpc.C12_operand_cast_witness",
    "Mpc.C12_result_type_widened_witness",
    "Mpc.C12_result_minbits_witness",
    "Mpc.C12_refold_shr_witness",
    "Mpc.C12_no_crash",
    "Mpc.C12_crash_wide_old_witness",
    "Mpc.C12_wide_witnesses",
    "Mpc.C12_rewiden_witness",
    "Mpc.Fold.constantMpa_ok",
    # several constants in one program (Model/FoldTable.lean)
    "Mpc.C12_const_table_exact_iff",
    "Mpc.C12_decimal_naming_injective",
    "Mpc.C12_mixed_naming_not_injective",
    "Mpc.C12_constants_see_own_bits",
    "Mpc.C12_multi_item_unaffected_by_company",
    "Mpc.C12_mixed_naming_witness",
    "Mpc.C12_multi_rewiden_witness",
    "Mpc.Fold.const_table_exact_iff",
    "Mpc.Fold.lookup_table",
    "Mpc.Fold.result_mem_registrations",
    "Mpc.Fold.decName_injective",
    "Mpc.Fold.cvName_int_injective",
    "Mpc.Fold.mixedName_collision",
    # folding leaves its operands alone (Model/MpaHist.lean, Model/FoldUses.lean)
    "Mpc.C12_mpa_call_writes_receiver_only",
    "Mpc.C12_mpa_history_operands_unchanged",
    "Mpc.C12_constant_value_independent_of_uses",
    "Mpc.C12_in_place_fold_witness",
    "Mpc.MpaHist.step_cases",
    "Mpc.MpaHist.step_frame",
    "Mpc.MpaHist.run_frame",
    "Mpc.Fold.runUses_pure",
    "Mpc.Fold.runUses_pure_decls",
]

# operator -> mpa method table of Binary.evalConst (T2 fact)
# Structural facts (T2).  They are SEMANTIC abstractions of the source — call sequences with same-package
# helpers inlined (gofacts callseq), "no write to .bits", "all three circuit arguments have one width expression",
# and one behavioural probe — never the literal text of a statement or the function a call happens to sit in.
# Everything the per-line model correspondence already pins down (Constant's 32/64/n sizing, isSet, the re-widening
# of shared constants, Cmp's -1/0/1 tests, operand/result wire widths of the large divider) is NOT repeated here.
MPA_METHODS = ["Mul", "Div", "Mod", "Lsh", "Rsh", "And", "AndNot", "Or", "Xor", "Add", "Sub", "Cmp"]
EXPECT_EVALCONST_CALLS = ["?.Mul", "?.Div", "?.Mod", "?.Lsh", "?.Rsh", "?.And", "?.AndNot", "?.Or", "?.Xor", "?.Add", "?.Sub"] + \
    ["?.Cmp"] * 6
EXPECT_DIVIDER_CALLS = ["?.NewCompiler", "?.NewIDivider", "?.Compile", "?.Compute"]


def facts(ctx, meta):
    ctx.fact("Binary.evalConst: one mpa method per operator, in operator order, six comparisons through Cmp "
             "(call sequence, helpers inlined)", ctx.callseq("compiler/ast", "Binary.evalConst", MPA_METHODS),
             EXPECT_EVALCONST_CALLS)
    ctx.fact("Unary.Eval: unary minus is NewInt(..).Sub(..) wrapped by Generator.Constant (call sequence)",
             ctx.callseq("compiler/ast", "Unary.Eval", ["NewInt", "Sub", "Constant"]),
             ["ssa.Generator.Constant", "?.NewInt", "?.Sub", "ssa.Generator.Constant"])
    for fn in ("Int.Div", "Int.Mod"):
        ctx.fact("mpa.%s large path: one circuit built with NewIDivider, compiled and computed (call sequence, helpers "
                 "inlined)" % fn,
                 ctx.callseq("compiler/mpa", fn, ["NewIDivider", "NewUDivider", "NewCompiler", "Compile", "Compute"]),
                 EXPECT_DIVIDER_CALLS)
    ctx.fact("mpa.Int.bin: one circuit, compiled and computed (call sequence)",
             ctx.callseq("compiler/mpa", "Int.bin", ["NewCompiler", "Compile", "Compute"]),
             ["?.NewCompiler", "?.Compile", "?.Compute"])
    body = vlib.strip_go_comments(vlib.go_func_body("compiler/mpa/mpint.go", r"\(z \*Int\) Add\(") or "")
    ctx.fact("mpa.Int.Add never assigns the receiver's size (no write to a .bits field)",
             [bool(body), bool(re.search(r"\.bits\s*(=[^=]|\+=|-=)", body))], [True, False])
    body = vlib.strip_go_comments(vlib.go_func_body("compiler/mpa/mpint.go", r"\(z \*Int\) bin\(") or "")
    widths = [re.sub(r"\s+", "", w) for w in re.findall(r"newIOArg\(\s*\"\w+\",\s*types\.TInt,\s*(.+?)\),?\s*\n", body)]
    ctx.fact("mpa.Int.bin: the two operands and the result are declared with one and the same width expression",
             [len(widths), len(set(widths))], [3, 1])
    # behavioural probe (harness, exported mpa API): New(128).Div(NewInt(3,2), NewInt(1,4)) is 3 when NewIDivider zero-pads
    # the 2-wire operand and 15 when it sign-pads it
    model_pad = re.findall(r"^def idivSignPads : Bool := (\w+)", open(vlib.LEAN + "/MpcVerif/Model/Mpa.lean").read(), flags=re.M)
    ctx.fact("NewIDivider's operand padding as observed through mpa.Int.Div = Model/Mpa.lean idivSignPads "
             "(zero = false, sign = true)", (meta or {}).get("idivider_pad"), "sign" if model_pad == ["true"] else "zero")


# ---------------------------------------------------------------- failure attribution

def case_key(parts):
    return tuple(parts)


def load_lines(ops, out, model):
    """(kind, key...) -> (impl, model) for every op line of one harness run."""
    res = {}
    with open(ops, errors="replace") as fo, open(out, errors="replace") as fi, open(model, errors="replace") as fm:
        for o, a in zip(fo, fi):
            b = fm.readline()
            p = o.split()
            if len(p) >= 3:
                res[tuple(p[1:])] = (a.rstrip("\n"), b.rstrip("\n"))
    return res


def fail_key(f):
    su = {"true": "s", "false": "u", "bool": "b"}[f["signed"]]
    return (f["op"], su, str(f["n"]), f["a"], f["b"], f["aform"], f["bform"])


def low_bits(v, n):
    return v % (1 << n)


def refold_operand_extended(folded, signed, n):
    """Is the folded constant, used as the operand of the re-folded `>> 1`,
    held with the sign / zero extension the `>>` theorem needs?"""
    p = folded.split()
    if len(p) != 6:
        return True
    val = int(p[5])
    lo = low_bits(val, n)
    if signed:
        want = lo - (1 << n) if lo >> (n - 1) else lo
        if n > 64:
            return lo >> (n - 1) == 0
        return val == want
    return 0 <= val == lo


def attribute(f, lines, hyp):
    """Adds `cause` (the first violated hypothesis of the operator theorems,
    or the consumer-level cause) and `model_predicts` to one oracle failure."""
    k = fail_key(f)
    fold = lines.get(("fold",) + k, ("?", "??"))
    cret = lines.get(("cret",) + k, ("?", "??"))
    rt = lines.get(("rt",) + k[:5], ("?", "??"))
    f["model_predicts"] = "true" if fold[0] == fold[1] and cret[0] == cret[1] and rt[0] == rt[1] else "false"
    h = hyp.get(k, "?")
    f["violated"] = h
    first = h.split("+")[0]
    ret_fails = cret[0] != rt[0]
    f["ret_agrees"] = "false" if ret_fails else "true"
    cons = f.get("consumer", "ret")
    if f["sig"] == "c12-fold-panic":
        named = [x for x in h.split("+") if x.startswith("wide-addsub")]
        f["cause"] = named[0] if named else ("none" if first == "covered" else first)
    elif cons == "ret" or ret_fails:
        if first == "covered":
            f["cause"] = "result-minbits-exceed-type" if cret[0] == "error" else "none"
        else:
            f["cause"] = first
    else:
        p = fold[0].split()
        fb = int(p[2]) if len(p) == 6 and p[0] == "ok" and p[1] in ("i", "u") else None
        if fb is not None and fb != f["n"]:
            f["cause"] = "result-type-widened"
        elif cons == "shr" and fb is not None and not refold_operand_extended(fold[0], f["signed"] == "true", f["n"]):
            f["cause"] = "refold-operand-not-extended"
        elif cons in ("shr", "shl") and first != "covered":
            # re-folding a constant that was produced outside the proved region (only its low n bits are right)
            f["cause"] = first
        else:
            f["cause"] = "none"


def run_driver_lines(ctx, text_lines):
    p = subprocess.run([ctx.drv], input=("\n".join(text_lines) + "\n").encode(), stdout=subprocess.PIPE,
                       stderr=subprocess.PIPE, timeout=1800)
    return p.stdout.decode("utf-8", "replace").split("\n")


def fold_runs(ctx, seeds, n, tag=""):
    """Runs the oracle for several seeds in parallel processes; returns the
    attributed failures."""
    def one(s):
        return s, ctx.run_hx("fold", n, seed=s, tag=tag, timeout=2400)
    with concurrent.futures.ThreadPoolExecutor(max_workers=min(len(seeds), 8)) as ex:
        results = list(ex.map(one, seeds))
    fails = []
    for s, (ops, out, meta) in results:
        ctx.absorb_meta(meta, prefix=tag)
        ctx.correspond("fold/cret/rt lines: folded constant, constant-variant result, run-time result (seed %d%s)"
                       % (s, tag), ops, out)
        lines = load_lines(ops, out, ops + ".model")
        hyp_ops = ["c12 hyp " + " ".join(k[1:]) for k in lines if k[0] == "fold"]
        hyp_res = run_driver_lines(ctx, hyp_ops)
        hyp = {tuple(o.split()[2:]): r for o, r in zip(hyp_ops, hyp_res)}
        cov = sum(1 for r in hyp.values() if r == "covered")
        ctx.coverage["cases_in_theorem_region"] = ctx.coverage.get("cases_in_theorem_region", 0) + cov
        ctx.coverage["cases_total"] = ctx.coverage.get("cases_total", 0) + len(hyp)
        for k in lines:
            if k[0] == "fold":
                ctx.distinct.add(hashlib.sha1(" ".join(k).encode()).digest())
        for f in meta.get("fails_all") or []:
            attribute(f, lines, hyp)
            fails.append(f)
    return fails


def attribute_multi(ctx, fails, ops):
    """`c12-multi-differs`: cause from the Lean model (`multiwhy`), model_predicts from the `multi` line of the case."""
    lines = {}
    try:
        with open(ops, errors="replace") as fo, open(ops.replace(".ops", ".out"), errors="replace") as fi, \
                open(ops + ".model", errors="replace") as fm:
            for o, a in zip(fo, fi):
                lines[o.rstrip("\n")] = (a.rstrip("\n"), fm.readline().rstrip("\n"))
    except OSError:
        pass
    todo = [f for f in fails if f.get("sig") == "c12-multi-differs" and f.get("multi_spec")]
    why = run_driver_lines(ctx, ["c12 multiwhy %s %s" % (f.get("output", 0), f["multi_spec"].split(" ", 2)[2]) for f in todo]) \
        if todo else []
    for f, w in zip(todo, why):
        impl, model = lines.get(f["multi_spec"], ("?", "??"))
        f["model_predicts"] = "true" if impl == model else "false"
        f["cause"] = w[3:] if w.startswith("ok ") else w
    for f in fails:
        f.setdefault("cause", "none")
        f.setdefault("model_predicts", "n/a")


def multi_runs(ctx, n_multi, n_ident, seed=None, tag=""):
    """Several constants in one program + the identity probe of Generator.Constant."""
    seed = ctx.seed if seed is None else seed
    fails = []
    ops, out, meta = ctx.run_hx("multi", n_multi, seed=seed, tag=tag, timeout=2400)
    ctx.absorb_meta(meta, prefix=tag)
    ctx.correspond("multi lines: 2..4 constant expressions in one program, outputs at x = 0 (Model/FoldTable.lean "
                   "multiOutputs: table keyed by name, first registered instance, rewiden)%s" % tag, ops, out)
    for line in open(ops, errors="replace"):
        ctx.distinct.add(hashlib.sha1(line.encode()).digest())
    mf = meta.get("fails_all") or []
    attribute_multi(ctx, mf, ops)
    fails += mf
    ctx.oblige("multi oracle ran%s" % tag, (meta.get("counters") or {}).get("multi_cases", 0) > 0, json.dumps(meta)[:500])
    ops, out, meta = ctx.run_hx("ident", n_ident, seed=seed, tag=tag, timeout=1200)
    ctx.absorb_meta(meta, prefix=tag)
    ctx.correspond("ident lines: the real Generator.Constant gives two (value, type) one Name iff the model's decimal "
                   "naming does (Model/FoldTable.lean identSame)%s" % tag, ops, out)
    for line in open(ops, errors="replace"):
        ctx.distinct.add(hashlib.sha1(line.encode()).digest())
    jf = meta.get("fails_all") or []
    attribute_multi(ctx, jf, ops)
    fails += jf
    ctx.oblige("identity probe ran%s" % tag, (meta.get("counters") or {}).get("ident_pairs", 0) > 0, json.dumps(meta)[:500])
    return fails


def purity_runs(ctx, n_hist, n_uses, seed=None, tag=""):
    """Folding leaves its operands alone: histories of mpa calls sharing their operand objects (every object
    observed after every call) and programs in which one constant is used by several folds and run-time uses."""
    seed = ctx.seed if seed is None else seed
    fails = []
    ops, out, meta = ctx.run_hx("mpah", n_hist, seed=seed, tag=tag, timeout=2400)
    ctx.absorb_meta(meta, prefix=tag)
    ctx.correspond("mpah lines: histories of 1..5 mpa calls sharing operand objects, every receiver / operand aliasing "
                   "pattern, EVERY object observed after EVERY call (Model/MpaHist.lean step: the receiver's register is "
                   "written, nothing else)%s" % tag, ops, out)
    for line in open(ops, errors="replace"):
        ctx.distinct.add(hashlib.sha1(line.encode()).digest())
    fails += meta.get("fails_all") or []
    ctx.oblige("mpa history oracle ran%s" % tag, (meta.get("counters") or {}).get("mpah_steps", 0) > 0, json.dumps(meta)[:500])
    ops, out, meta = ctx.run_hx("uses", n_uses, seed=seed, tag=tag, timeout=2400)
    ctx.absorb_meta(meta, prefix=tag)
    ctx.correspond("uses lines: one constant bound to a name, used by several folds and by run-time uses; outputs of the "
                   "constant variant at x = 0 (Model/FoldUses.lean usesOutputs cvName pureFold: every fold a function of the "
                   "declared values)%s" % tag, ops, out)
    for line in open(ops, errors="replace"):
        ctx.distinct.add(hashlib.sha1(line.encode()).digest())
    fails += meta.get("fails_all") or []
    ctx.oblige("uses oracle ran%s" % tag, (meta.get("counters") or {}).get("uses_cases", 0) > 0, json.dumps(meta)[:500])
    for f in fails:
        f.setdefault("cause", "operand-written-by-a-call" if f.get("sig") == "c12-mpa-operand-changed"
                     else "constant-depends-on-earlier-folds")
        f.setdefault("model_predicts", "false")
    return fails


def by_class_round_robin(fails):
    """One failure of every signature first (the replay file keeps the first ten): the call that wrote its operand AND the
    program whose constant changed."""
    rank, out = {}, []
    for f in fails:
        rank[f.get("sig")] = rank.get(f.get("sig"), 0) + 1
        out.append((rank[f.get("sig")], len(out), f))
    return [f for _, _, f in sorted(out, key=lambda t: (t[0], t[1]))]


def replay_exact(ctx):
    """`bin/check C12 --replay F`: when F holds one `multi` program, one `ident` pair, one `mpah` history or one
    `uses` program, run exactly that case on the real code first (the seeded run that produced it follows)."""
    if "--replay" not in sys.argv:
        return
    try:
        rp = sys.argv[sys.argv.index("--replay") + 1]
        rp = rp if os.path.isabs(rp) else os.path.join(vlib.VERIF, rp)
        f = json.load(open(rp)).get("failure") or {}
    except Exception:
        return
    for mode, key, pre in (("multi", "multi_spec", "c12 multi "), ("ident", "ident_spec", ""),
                           ("mpah", "mpah_spec", "c12 mpah "), ("uses", "uses_spec", "c12 uses ")):
        spec = f.get(key)
        if not spec:
            continue
        spec = spec[len(pre):] if pre and spec.startswith(pre) else spec
        ops, out, meta = ctx.run_hx(mode, 1, extra_args=["-extra", spec], tag="-replay", timeout=600)
        got = meta.get("fails_all") or []
        if mode in ("multi", "mpah", "uses"):
            ctx.correspond("replayed %s case vs model" % mode, ops, out)
        attribute_multi(ctx, got, ops)
        if mode == "mpah":
            print("replayed exactly: c12 mpah -extra \"%s\"\n  -> %s" % (spec, "; ".join(
                "%s: %s" % (g.get("sig"), g.get("detail", "")) for g in got) or "no failure on this tree"))
        else:
            print("replayed exactly: c12 %s -extra \"%s\"\n  -> %s" % (mode, spec, "; ".join(
                "%s output %s: constant variant %s, run-time %s" % (g.get("sig"), g.get("output", "-"), g.get("const_out", g.get("name")),
                                                                    g.get("rt_out", g.get("detail", ""))) for g in got)
                or "no failure on this tree"))
        for g in got:
            g["found_by"] = "exact replay of " + os.path.basename(rp)
        ctx.fails.extend(got)


def run(ctx):
    ctx.prove("MpcVerif.Props.C12", THEOREMS)
    run_t1(ctx, ["C12"])          # compiler/mpa/mpint.go small paths = Model/Mpa.lean
    if ctx.tier == "thorough":
        ctx.leanchecker("MpcVerif.Props.C12")
    ctx.build_drv()
    quick = ctx.tier == "quick"
    if ctx.build_hx():
        replay_exact(ctx)
        ops, out, meta = ctx.run_hx("mpa", 12000 if quick else 120000)
        ctx.absorb_meta(meta)
        facts(ctx, meta)
        ctx.correspond("exported mpa API (New, NewInt, Parse, SetTypeSize, Add..Xor, Lsh, Rsh, Cmp, Int64, BitLen, Bit, "
                       "Sign, String, Text) vs Model/Mpa.lean; receiver AND both operands observed after the call", ops, out)
        for line in open(ops, errors="replace"):
            ctx.distinct.add(hashlib.sha1(line.encode()).digest())
        pure_fails = []
        for f in meta.get("fails_all") or []:
            f.setdefault("cause", "operand-written-by-a-call")
            f.setdefault("model_predicts", "false")
            pure_fails.append(f)
        # folding leaves its operands alone: call histories sharing operand objects; constants used several times
        pure_fails = purity_runs(ctx, 3000 if quick else 40000, 700 if quick else 8000) + pure_fails
        if not quick:
            for i in range(1, 3):
                pure_fails += purity_runs(ctx, 20000, 4000, seed=ctx.seed + 57 * i, tag="-p%d" % i)
        ctx.fails.extend(by_class_round_robin(pure_fails))
        seeds = [ctx.seed + 100 * i for i in range(8 if quick else 12)]
        fails = fold_runs(ctx, seeds, 150 if quick else 1500)
        ctx.fails.extend(fails)
        unknown = [f for f in fails if not ctx.is_known(f)]
        if (ctx.broken and not unknown) and quick:
            # widened search for a concrete failing input
            more = fold_runs(ctx, [ctx.seed + 7000 + i for i in range(6)], 300, tag="-widen")
            ctx.fails.extend(more)
        # constants aliased by their value name: first registered type wins, later uses are re-widened
        aops, aout, meta = ctx.run_hx("alias", 500 if quick else 6000)
        ctx.absorb_meta(meta)
        ctx.correspond("alias lines: two constants sharing a name, second re-widened (Model/Fold.lean rewiden)", aops, aout)
        ctx.fails.extend(meta.get("fails_all") or [])
        ctx.oblige("alias oracle ran", (meta.get("counters") or {}).get("alias_cases", 0) > 0, json.dumps(meta)[:500])
        # several constants in one program; identity of constants (Generator.Constant) probed directly
        ctx.fails.extend(multi_runs(ctx, 700 if quick else 6000, 1500 if quick else 20000))
        if not quick:
            for i in range(1, 4):
                ctx.fails.extend(multi_runs(ctx, 3000, 8000, seed=ctx.seed + 31 * i, tag="-s%d" % i))
        causes = {}
        for f in ctx.fails:
            causes[f["sig"] + ":" + f.get("cause", "?")] = causes.get(f["sig"] + ":" + f.get("cause", "?"), 0) + 1
        ctx.coverage["failure_classes_reported_by_oracle"] = causes
    ctx.coverage["rule"] = (
        "per case one (operator, intN/uintN/bool, a, b, operand forms T(v) / T(-v) / -T(v)); widths biased to "
        "1,2,3,7,8,9,15,16,31,32,33,63,64,65,66,100,127..130 plus uniform 1..130; values 0,1,max,min,max-k,min+k, top-bit "
        "patterns, around 2^31/2^32/2^63/2^64, -1, random; shift counts around the width and 31..65; each case compiled "
        "as constant and as run-time variant with 13 (int) / 5 (bool) consumers and 3 consumer inputs; mode multi: 2..4 "
        "items (typed constant or folded + - | ^ <<, each of its own type, inline or through := variables, consumed by "
        "^x / +x / x-) per program, items 0/1 an adversarial pair for the identity of constants (one digit string read in "
        "two of the bases 2/8/10/16 at lengths around the 32/64/128-bit sizing boundaries, equal low 32/64 bits, same value "
        "at another width/signedness, -k vs 2^N-k, value = the other one's printed digits, same twice, random), 3 input "
        "vectors; mode ident: the same pairs through the real Generator.Constant, both orders; mode mpa: one call on fresh "
        "operands, receiver and both operands observed after it; mode mpah: histories of 1..5 calls on 2..3 (+ fresh "
        "receivers) shared objects, first step = every method x {z fresh, z fresh & x==y, z==x, z==y, z==x==y, z another "
        "object} x {operands sized as the compiler sizes literals for a type of 65..130 bits incl. values fitting 32/64 "
        "bits, small receivers, anything}, later steps random with the first step's operands reused, every object observed "
        "after every call; mode uses: 2..3 declarations (:= or package-level const) of one type (widths 8,31..33,63..66,100,"
        "127,128,130 + random; values fitting 32/64 bits in any type, full width, patterns), 2..4 folds whose operands are "
        "declarations or earlier results (first fold = every operator on v0, v1, also swapped and v0 op v0), every variable "
        "used with its own run-time input, shared / fresh-literal / run-time variants, 3 input vectors; distinct = distinct "
        "case keys / op lines")
    ctx.assumptions += [
        "the builders of compiler/circuits are taken at their arithmetic meaning (C07); Model/Mpa.lean's large path and "
        "Model/Fold.lean's circuitOp are tied to the real circuits by the mpa / rt correspondence lines only",
        "operand forms are T(v), T(-v) and -T(v); constants reached through const declarations and untyped-typed mixes "
        "are not generated (constants bound by := are, mode multi); the registration order of the constants of a multi "
        "program (first instance of a name wins) is modelled for the two generated program shapes only",
        "operand purity is observed through the exported mpa API (TypeSize, String, Text, BitLen, Int64, Sign, Bit 0..135) "
        "and, at program level, through the outputs of programs whose constants are bound by := / const; constants reached "
        "through struct fields, arrays or function arguments are not generated",
        "the naming function of Generator.Constant is tied to the model's decimal naming by the equality pattern of the "
        "Names on generated pairs (ident lines) and by the multi lines, not by comparing the Name text",
        "theorems cover every width; above 64 bits they are about the large path modelled at the level result = (x op y) "
        "mod 2^N (adder/subtractor/multiplier/divider circuits and math/big taken at their arithmetic meaning), tied to "
        "the real code by the mpa API and fold/cret correspondence lines",
    ]
    return ctx.finish(
        "Oracle: for every generated case the constant and the run-time variant of the same MPCL expression are compiled "
        "with the real compiler (folding confirmed in the SSA program) and evaluated with Circuit.Compute for every consumer; "
        "every difference, rejection of the constant variant and compiler panic is reported. Each report is attributed to "
        "the first hypothesis of the operator theorems it violates (computed by the Lean driver from the model) and marked "
        "with whether the Lean model predicts the folded constant, the constant-variant result and the run-time result "
        "exactly; known findings match (signature, cause, model_predicts=true) only. Programs of several constant "
        "expressions (mode multi) are compared output by output with the run-time variant; a difference that the item "
        "does not show when compiled alone is reported (cause from the model's constant table). The real "
        "Generator.Constant is probed for two constants of one Name with different bits. Operand purity: after every mpa call "
        "(single calls and histories sharing operand objects, every aliasing pattern) every object that is not the receiver "
        "must be observed unchanged; programs in which one constant is used by several folds and run-time uses are compared "
        "output by output with the run-time variant, a difference the fresh-literal variant does not show is reported. Tie: exported mpa API vs Model/Mpa.lean; "
        "folded constant (type, Bits, MinBits, mpa size, value), `return c` result and run-time circuit result vs "
        "Model/Fold.lean, line by line.")

"""C03 Compiled circuit computes what the MPCL program means.

Translation validation: the Lean big-step interpreter of the MPCL subset
(lean/MpcVerif/Model/Mpcl.lean, theorems in Props/C03.lean) is the oracle; the
Go harness generates typed programs, hands the printed source to the real
compiler (compiler.Compile + circuit.Compute) and the serialised AST to the
Lean driver; every output on every evaluated input must agree.  Plus every
shipped `// @Test` vector through the real compiler.  Mode `pkg`: the same
generator with package-level var / const / type declarations of package main,
used directly and shadowed by parameters and locals (reference:
Model/MpclPkg.lean, theorems in Props/C03Pkg.lean).
"""
import concurrent.futures
import hashlib
import json
import os

import vlib

LEVEL = "translation_validation"

THEOREMS = [
    "Mpc.C03_sem_add_eq_bv",
    "Mpc.C03_sem_sub_eq_bv",
    "Mpc.C03_sem_mul_eq_bv",
    "Mpc.C03_sem_and_eq_bv",
    "Mpc.C03_sem_or_eq_bv",
    "Mpc.C03_sem_xor_eq_bv",
    "Mpc.C03_sem_andnot_eq_bv",
    "Mpc.C03_sem_udiv_eq_bv",
    "Mpc.C03_sem_umod_eq_bv",
    "Mpc.C03_sem_sdiv_eq_bv",
    "Mpc.C03_sem_smod_eq_bv_abs",
    "Mpc.C03_sem_sdiv_trunc_toward_zero",
    "Mpc.C03_sem_neg_eq_bv",
    "Mpc.C03_sem_shl_eq_bv",
    "Mpc.C03_sem_ushr_eq_bv",
    "Mpc.C03_sem_sshr_eq_bv",
    "Mpc.C03_sem_ult_eq_bv",
    "Mpc.C03_sem_ule_eq_bv",
    "Mpc.C03_sem_slt_eq_bv",
    "Mpc.C03_sem_sle_eq_bv",
    "Mpc.C03_sem_eq_eq_bv",
    "Mpc.C03_cast_trunc_eq_bv",
    "Mpc.C03_cast_zext_eq_bv",
    "Mpc.C03_cast_sext_eq_bv",
    "Mpc.C03_cast_widen_then_narrow",
    "Mpc.C03_cast_same_width",
    "Mpc.C03_binop_wf",
    "Mpc.C03_land_short_circuit",
    "Mpc.C03_early_return_elim",
    "Mpc.C03_early_return_eq_if_else",
    "Mpc.C03_for_unroll_step",
    "Mpc.C03_for_unroll_done",
    "Mpc.C03_for_unroll",
    "Mpc.C03_for_unroll_conv",
    "Mpc.C03_ssa_lower_correct_partial",
    "Mpc.C03_ssa_lower_correct_single",
    "Mpc.C03_ssa_lower_examples_in_fragment",
    "Mpc.C03_ssa_lower_ex_straight",
    "Mpc.C03_ssa_lower_ex_literals",
    "Mpc.C03_ssa_lower_ex_ops",
    "Mpc.C03_ssa_lower_ex_if",
    "Mpc.C03_ssa_lower_ex_early_return",
    "Mpc.C03_ssa_lower_ex_for",
    "Mpc.C03_ssa_lower_ex_div",
    "Mpc.C03_ssa_lower_ex_call",
    "Mpc.C03_ssa_lower_ex_return_call",
    "Mpc.C03_ssa_lower_ex_array",
    "Mpc.C03_ssa_lower_ex_struct",
    "Mpc.C03_ssa_lower_ex_nested",
    "Mpc.C03_ssa_lower_excludes_deviations",
    "Mpc.C03_fuel_irrelevant",
    "Mpc.C03_fuel_irrelevant_raw",
    "Mpc.C03_shipped_vectors",
    "Mpc.C03_finding_witnesses",
    "Mpc.C03_repaired_witnesses",
]

# package-level declarations and their shadowing (Props/C03Pkg.lean; oracle of mode `pkg`)
PKG_THEOREMS = [
    "Mpc.C03_pkg_conservative",
    "Mpc.C03_pkg_prelude_env",
    "Mpc.C03_pkg_param_shadows",
    "Mpc.C03_pkg_global_value",
    "Mpc.C03_pkg_lookup_order",
    "Mpc.C03_pkg_local_shadows",
    "Mpc.C03_pkg_shipped_vectors",
    "Mpc.C03_pkg_ok_class",
]

# sig of an unexplained disagreement
SIG_MISMATCH = "c03-output-mismatch"
SIG_REJECT = "c03-compile-rejected"


def localise(a, b, s):
    """Where does a source-vs-circuit disagreement arise, judged by the SSA-level evaluation `s`?"""
    if s is None or s == "skip":
        return "not localised (no SSA-level evaluation)"
    if s == a and s != b:
        return "front end (AST -> SSA): the SSA-level evaluation agrees with the circuit"
    if s == b and s != a:
        return "back end (SSA -> circuit): the SSA-level evaluation agrees with the source semantics"
    return "both stages (the SSA-level evaluation agrees with neither)"


def classify_ssa(ctx, mode, seed, out, model, ssamodel, srcs, maxkeep=10):
    """SSA-level tie: ssaEval(dumped SSA) must equal the circuit (and, outside the known deviations, the source
    semantics).  A disagreement with the circuit where source and circuit agree is an unexplained failure of the
    SSA -> circuit stage (or of its Lean model)."""
    try:
        recs = [json.loads(l) for l in open(srcs, errors="replace") if l.strip()]
    except Exception:  # noqa: BLE001
        recs = []
    n = skipped = bad = kept = 0
    with open(out, errors="replace") as fi, open(model, errors="replace") as fm, open(ssamodel, errors="replace") as fs:
        for i, a in enumerate(fi):
            b, s = fm.readline().rstrip("\n"), fs.readline().rstrip("\n")
            a = a.rstrip("\n")
            if s == "skip" or a.startswith("compile-"):
                skipped += 1
                continue
            n += 1
            if s == a:
                continue
            bad += 1
            rec = recs[i] if i < len(recs) else {}
            if kept < maxkeep:
                kept += 1
                aa, ss = a.split(";"), s.split(";")
                differ = [j for j in range(min(len(aa), len(ss))) if aa[j] != ss[j]]
                ins = rec.get("inputs", "")
                tuples = ins.split(";") if ins and ins != "all" else None
                j = differ[0] if differ else 0
                ctx.fails.append({
                    "sig": "c03-ssa-circuit-mismatch", "mode": mode, "seed": seed, "case": rec.get("case", i),
                    "defect": "", "name": rec.get("name", ""), "source": vlib.clip(rec.get("src", ""), 6000),
                    "input": tuples[j] if tuples and j < len(tuples) else "exhaustive-counter:%d" % j,
                    "impl": aa[j] if j < len(aa) else "", "ssa_model": ss[j] if j < len(ss) else vlib.clip(s, 100),
                    "source_model_agrees_with_circuit": a == b,
                    "rerun": "MPCLDIR=%s c03 %s -seed %d -n %d -tier %s -only %s -ops o -out r -srcs s -ssaops q; "
                             "drv_c03 < q | diff - r" % (vlib.REPO, mode, seed, int(rec.get("case", i)) + 1, ctx.tier,
                                                        rec.get("case", i))})
    ctx.coverage["ssa_tie_%s_seed%d" % (mode, seed)] = {"programs": n, "skipped": skipped, "disagreements": bad}
    ctx.coverage["ssa_programs"] = ctx.coverage.get("ssa_programs", 0) + n
    ctx.coverage["ssa_skipped"] = ctx.coverage.get("ssa_skipped", 0) + skipped
    ctx.oblige("SSA-level tie %s seed %d: ssaEval(real compiler's SSA) = compiled circuit on %d programs (%d skipped)"
               % (mode, seed, n, skipped), bad == 0 and n > 0, "%d disagreements (see failures)" % bad)


def classify(ctx, mode, seed, ops, out, model, srcs, maxkeep=40, ssamodel=None):
    """Line-by-line translation validation.  Every disagreement becomes an
    oracle failure carrying the program, the first differing input and both
    answers; failures in the known-deviation probe classes carry the class in
    `defect` (matched narrowly by known_findings.json)."""
    n = 0
    dis = 0
    unexplained = 0
    local = []
    gen_invalid = []
    try:
        recs = [json.loads(l) for l in open(srcs, errors="replace") if l.strip()]
    except Exception as e:  # noqa: BLE001
        ctx.oblige("sidecar of %s seed %d readable" % (mode, seed), False, str(e))
        return
    ssalines = None
    if ssamodel:
        try:
            ssalines = open(ssamodel, errors="replace").read().split("\n")
        except Exception:  # noqa: BLE001
            ssalines = None
    with open(ops, errors="replace") as fo, open(out, errors="replace") as fi, open(model, errors="replace") as fm:
        for i, (op, a) in enumerate(zip(fo, fi)):
            b = fm.readline()
            a, b = a.rstrip("\n"), b.rstrip("\n")
            n += 1
            rec = recs[i] if i < len(recs) else {}
            ctx.distinct.add(hashlib.sha1(op.split(" ", 2)[-1].encode()).digest())
            if a == b:
                continue
            dis += 1
            defect = rec.get("defect", "")
            if a.startswith("compile-") and b and all(x == "E" for x in b.split(";")):
                # rejected by the compiler AND undefined in the reference on every input: the PROGRAM is invalid
                # (e.g. ill-scoped: a name used at the type of a declaration that is shadowed there) - a defect of the
                # generator, not a finding about the compiler
                gen_invalid.append({"mode": mode, "seed": seed, "case": rec.get("case", i), "compiler": vlib.clip(a, 200),
                                    "source": vlib.clip(rec.get("src", ""), 1500)})
                continue
            if not defect:
                unexplained += 1
            if dis > maxkeep and defect:
                continue
            f = {"mode": mode, "seed": seed, "case": rec.get("case", i), "defect": defect,
                 "name": rec.get("name", ""), "source": vlib.clip(rec.get("src", ""), 6000),
                 "rerun": "cd /verif/harness && go build -tags verif -o /tmp/c03 ./cmd/c03 && MPCLDIR=%s /tmp/c03 %s "
                          "-seed %d -n %d -tier %s -only %s -ops /tmp/o -out /tmp/r -srcs /tmp/s && "
                          "/verif/lean/.lake/build/bin/drv_c03 < /tmp/o | diff - /tmp/r   "
                          "(one program; or save `source` as p.mpcl and run: /tmp/c03 src -file p.mpcl -in <input>)"
                          % (vlib.REPO, mode, seed, int(rec.get("case", i)) + 1, ctx.tier, rec.get("case", i))}
            if a.startswith("compile-"):
                f["sig"] = SIG_REJECT
                f["impl"] = vlib.clip(a, 400)
                f["model"] = vlib.clip(b, 200)
            elif b.startswith("bad-") or b == "":
                f["sig"] = "c03-model-driver-error"
                f["impl"] = vlib.clip(a, 200)
                f["model"] = vlib.clip(b, 200)
            else:
                f["sig"] = SIG_MISMATCH
                aa, bb = a.split(";"), b.split(";")
                ins = rec.get("inputs", "")
                tuples = ins.split(";") if ins and ins != "all" else None
                differ = [j for j in range(min(len(aa), len(bb))) if aa[j] != bb[j]]
                f["n_inputs"] = len(aa)
                f["n_inputs_differ"] = len(differ) + abs(len(aa) - len(bb))
                if differ:
                    j = differ[0]
                    f["input"] = tuples[j] if tuples and j < len(tuples) else "exhaustive-counter:%d" % j
                    f["impl"] = aa[j]
                    f["model"] = bb[j]
                    f["model_undefined"] = bb[j] == "E"
                f["localised"] = localise(a, b, ssalines[i] if ssalines and i < len(ssalines) else None)
            local.append(f)
    # headline = a wrong OUTPUT with its input, if there is one (a rejected program has no failing input)
    ctx.fails.extend(sorted(local, key=lambda f: 0 if f["sig"] == SIG_MISMATCH and not f["defect"] else 1))
    ctx.evaluations += n
    key = "validation_%s_seed%d" % (mode, seed)
    ctx.coverage[key] = {"programs": n, "disagreements": dis, "unexplained": unexplained,
                         "invalid_programs_generated": len(gen_invalid)}
    ctx.oblige("generator self-check %s seed %d: no generated program is rejected by BOTH the compiler and the reference "
               "semantics (an ill-scoped / ill-typed program is a defect of the generator, not of the compiler)" % (mode, seed),
               not gen_invalid, "generator emitted an ill-scoped program: %s" % json.dumps(gen_invalid[:3])[:3000])
    ctx.coverage["programs"] = ctx.coverage.get("programs", 0) + n
    ctx.coverage["disagreements_checked"] = ctx.coverage.get("disagreements_checked", 0) + dis
    ctx.oblige("translation validation %s seed %d: compiled circuit = Lean reference semantics on %d programs "
               "(outside the known-deviation probe classes)" % (mode, seed, n),
               unexplained == 0 and n > 0, "%d unexplained disagreements (see failures)" % unexplained)


def one_run(ctx, mode, n, seed, tag=""):
    base = os.path.join(ctx.work, "%s%s-%d" % (mode, tag, seed))
    srcs = base + ".srcs"
    ssaops = base + ".ssaops"
    ops, out, meta = ctx.run_hx(mode, n, seed=seed, extra_args=["-srcs", srcs, "-ssaops", ssaops], tag=tag,
                                timeout=2400)
    model, rc = ctx.run_drv(ops, timeout=2400)
    ssamodel, rc2 = (ctx.run_drv(ssaops, timeout=2400) if os.path.exists(ssaops) else (None, 1))
    return mode, seed, ops, out, meta, model, rc or rc2, srcs, ssamodel


def run(ctx):
    ctx.prove("MpcVerif.Props.C03", THEOREMS)
    ctx.prove("MpcVerif.Props.C03Backend", ["Mpc.C03_backend_correct", "Mpc.C03_backend_plainEval",
                                               "Mpc.C03_backend_exclusions_necessary"])
    ctx.prove("MpcVerif.Props.C03Pkg", PKG_THEOREMS)
    if ctx.tier == "thorough":
        ctx.leanchecker("MpcVerif.Props.C03")
    ctx.build_drv()
    quick = ctx.tier == "quick"
    if ctx.build_hx():
        jobs = [("witness", 1, ctx.seed), ("grid", 1, ctx.seed)]
        if quick:
            jobs += [("gen", 300, ctx.seed), ("pkg", 150, ctx.seed)]
        else:
            jobs += [("gen", 2500, ctx.seed + k * 1000003) for k in range(6)]  # the PRNG streams of seeds s and s+n overlap after n cases
            jobs += [("pkg", 1000, ctx.seed + k * 1000003) for k in range(2)]
        results = []
        with concurrent.futures.ThreadPoolExecutor(max_workers=1 if quick else 6) as ex:
            futs = [ex.submit(one_run, ctx, m, n, s) for (m, n, s) in jobs]
            for f in futs:
                results.append(f.result())
        for mode, seed, ops, out, meta, model, rc, srcs, ssamodel in results:
            ctx.absorb_meta(meta, prefix="" if mode == "gen" else mode + "_")
            ctx.oblige("model driver ran %s seed %d (source and SSA level)" % (mode, seed), rc == 0, "rc=%d" % rc)
            classify(ctx, mode, seed, ops, out, model, srcs, ssamodel=ssamodel)
            if ssamodel:
                classify_ssa(ctx, mode, seed, out, model, ssamodel, srcs)
        # every shipped @Test vector through the real compiler (oracle only)
        ops, out, meta = ctx.run_hx("testsuite", 0, timeout=2400)
        ctx.absorb_meta(meta, prefix="tv_")
        c = ctx.coverage.get("counters", {})
        ctx.coverage["testvectors"] = c.get("tv_testvectors", 0)
        ctx.oblige("shipped @Test vectors were run (files %d, vectors %d)" % (c.get("tv_testfiles", 0),
                                                                             c.get("tv_testvectors", 0)),
                   c.get("tv_testvectors", 0) >= 150 and c.get("tv_testfiles", 0) >= 60,
                   "counters: %s" % {k: v for k, v in c.items() if k.startswith("tv_")})
        ctx.evaluations += c.get("tv_testvectors", 0)
        # tie of the Lean model of ssagen (Ssa.lower, Model/MpclLower.lean) to the REAL ssagen: harness/cmd/c03/lower.go,
        # lean/Driver/C03Lower.lean; per program and input: ssaEval(lower p) = ssaEval(real SSA) = source = circuit
        nlow = 250 if quick else 2000
        ops, out, meta = ctx.run_hx("lower", nlow, timeout=2400)
        ctx.absorb_meta(meta, prefix="")
        for d in ctx.correspond("lower-vs-real-ssagen", ops, out, canon=lambda s: s.split(" #")[0]):
            # right after the headline (first unexplained) failure: the replay file keeps only the first 10 failures
            at = next((i + 1 for i, f in enumerate(ctx.fails) if not ctx.is_known(f)), len(ctx.fails))
            ctx.fails.insert(at, {"sig": "c03-lower-tie-mismatch", "mode": "lower", "seed": ctx.seed, "line": d["index"] + 1,
                              "op": vlib.clip(d["op"], 3000), "impl": d["impl"], "model": d["model"],
                              "first_diff": d["first_diff"],
                              "rerun": "cd /verif/harness && go build -tags verif -o /tmp/c03 ./cmd/c03 && MPCLDIR=%s /tmp/c03 "
                                       "lower -seed %d -n %d -tier %s -ops /tmp/o -out /tmp/r -meta /tmp/m && "
                                       "/verif/lean/.lake/build/bin/drv_c03 < /tmp/o | sed 's/ #.*//' | diff - /tmp/r   (line %d)"
                                       % (vlib.REPO, ctx.seed, nlow, ctx.tier, d["index"] + 1)})
        c = ctx.coverage.get("counters", {})
        try:
            mlines = open(ops + ".model", errors="replace").read().split("\n")
        except Exception:  # noqa: BLE001
            mlines = []
        ctx.coverage["lower_tie"] = {
            "generator_programs": c.get("lower_gen_total", 0), "generator_inside_fragment": c.get("lower_gen_inside", 0),
            "share_inside": round(c.get("lower_gen_inside", 0) / max(1, c.get("lower_gen_total", 0)), 3),
            "focused_programs": c.get("lower_frag_total", 0), "programs_tied": c.get("lower_programs", 0),
            "exhaustive": c.get("lower_programs_exhaustive", 0), "evaluations": c.get("lower_evaluations", 0),
            "compile_rejected": c.get("lower_compile_rejected", 0), "ssa_skipped": c.get("lower_ssa_skipped", 0),
            "structural_same_programs": sum(1 for l in mlines if " #same" in l),
            "structural_drift_programs": sum(1 for l in mlines if " #drift" in l),
            "structural_drift_other_than_extra_phi": sum(
                1 for l in mlines if " #drift" in l and
                any(not (t.startswith("phi/") and "+" in t) for t in l.split(" #drift ")[1].split(" n=")[0].split())),
            "outside_reasons": {k[len("lower_outside_"):]: v for k, v in c.items() if k.startswith("lower_outside_")},
            "features": {k[len("lowfeat_"):]: v for k, v in c.items() if k.startswith("lowfeat_")}}
        ctx.evaluations += c.get("lower_evaluations", 0)
        ctx.oblige("lower fragment holds >= 80 %% of the general generator's programs (%d of %d)"
                   % (c.get("lower_gen_inside", 0), c.get("lower_gen_total", 0)),
                   c.get("lower_gen_inside", 0) * 5 >= c.get("lower_gen_total", 0) * 4,
                   "outside: %s" % ctx.coverage["lower_tie"]["outside_reasons"])
        lowneed = ["if", "if_else", "if_no_else", "early_return", "nested_return", "both_return", "one_branch_returns",
                   "return_in_loop", "loop_body_returns", "for", "for_zero_iters", "loopvar_operand", "div", "mod", "sdiv", "smod", "udiv", "umod",
                   "shift", "shift_ge_width", "shr_arith", "cmp_signed", "cmp_unsigned", "land_lor", "not", "neg",
                   "cast_sext", "cast_zext", "cast_trunc", "literal_wide", "literal_left", "bool_var", "decl_zero", "define",
                   "opassign", "incdec", "two_results",
                   # calls (inlined), arrays, structs, nested aggregates
                   "call", "call_one_result", "call_decl", "multi_define", "multi_assign", "return_call_multi", "agg_argument", "helper",
                   "callee_early_return", "callee_calls", "callee_multi_result", "callee_named_results",
                   "callee_reuses_caller_names", "callee_agg_param", "callee_agg_result", "agg_param", "agg_result",
                   "array", "struct", "nested_agg", "agg_zero", "agg_copy", "agg_assigned_in_if", "index_const",
                   "index_loopvar", "index_variable", "field_read", "nested_read", "elem_write", "field_write",
                   "nested_write", "store_index_loopvar", "component_write_in_loop", "opassign_component"]
        lowmiss = [k for k in lowneed if c.get("lowfeat_" + k, 0) == 0]
        ctx.oblige("lower tie reached every fragment feature (%d features) on >= %d programs, none skipped or rejected"
                   % (len(lowneed), nlow // 2),
                   not lowmiss and c.get("lower_programs", 0) >= nlow // 2 and c.get("lower_frag_not_in_fragment", 0) == 0
                   and c.get("lower_ssa_skipped", 0) == 0,
                   "never generated: %s; %s" % (lowmiss, {k: v for k, v in ctx.coverage["lower_tie"].items()
                                                         if k != "features"}))
        # generator distribution obligations (measured, not assumed)
        need = ["feat_cast_sext", "feat_cast_zext", "feat_cast_trunc", "feat_op_sdiv", "feat_op_smod", "feat_op_udiv",
                "feat_shr_arith", "feat_shift_ge_width", "feat_early_return", "feat_for", "feat_for_nested",
                "feat_return_in_loop", "feat_struct", "feat_assign_element", "feat_assign_field", "feat_multi_define",
                "feat_call_in_expr", "feat_callee_reuses_caller_names", "feat_index_variable", "feat_named_results",
                "feat_if_else_both_return", "feat_else_if", "feat_cmp_signed_lt", "feat_cmp_unsigned_ge",
                "programs_exhaustive",
                # shapes repaired in /repo (4accfb7, 3c18dfa, dfc60cc, 86f919b): ordinary cases now
                "feat_shape_lit_signed_narrow", "feat_shape_const_cast_shared", "feat_shape_const_left_unsigned",
                "feat_shape_named_result_zero",
                # if/else whose branches each hold an else-less inner if assigning the same variable the same
                # value under different computed conditions (pending selects that differ only in the condition)
                "feat_twin_if_same_value", "feat_twin_if_value_constant", "feat_twin_if_value_variable",
                "feat_twin_if_deeper", "feat_twin_if_mixed_assign", "feat_twin_if_two_variables",
                "feat_twin_if_early_return"]
        missing = [k for k in need if c.get(k, 0) == 0]
        ctx.oblige("generator reached every listed language feature (%d features)" % len(need), not missing,
                   "never generated: %s" % missing)
        # package-level declarations (mode pkg): what the package-level names went through is MEASURED on the
        # finished programs by a scope-aware walk (gen_pkg.go tagScopes), not taken from the generator's intent
        need_pkg = ["var_init", "var_zero", "var_zero_aggregate", "const_typed", "const_untyped", "named_array_type",
                    "declared_after_functions",
                    "var_read_main", "var_read_callee", "var_read_in_if", "var_read_in_for", "var_aggregate_read",
                    "const_read_main", "const_read_callee",
                    "var_assigned_main", "var_assigned_in_if_main", "var_assigned_in_for_main",
                    "shadow_by_param_main", "shadow_by_param_callee", "shadow_by_local_main", "shadow_by_local_callee",
                    "shadow_of_const", "shadow_same_type", "shadow_other_type", "read_before_shadow",
                    "shadow_read_main", "shadow_read_callee", "shadow_read_in_if_main", "shadow_read_in_for_main",
                    "shadow_read_after_if_main", "shadow_read_after_if_callee", "shadow_read_after_for_main",
                    "shadow_assigned_in_if_main", "shadow_assigned_in_if_callee", "shadow_assigned_in_for_main"]
        pkgc = {k[len("pkg_feat_pkg_"):]: v for k, v in c.items() if k.startswith("pkg_feat_pkg_")}
        ctx.coverage["pkg_scoping_classes"] = pkgc
        pmiss = [k for k in need_pkg if pkgc.get(k, 0) == 0]
        pbug = {k: v for k, v in pkgc.items() if k.startswith("BUG_")}
        # every finished pkg program is re-validated by the scope-aware walk (each use of a name must denote, at that
        # point, a declaration of the type it is used at); offenders are dropped and regenerated, counted here
        ctx.coverage["pkg_generator_ill_scoped_regenerated"] = c.get("pkg_generator_ill_scoped_regenerated", 0)
        ctx.oblige("package-level declarations: every listed scoping class occurred (%d classes: var/const/type declarations "
                   "used in main and callees, assigned in main, shadowed by parameters and function-level locals of the same "
                   "and of another type, the shadow read/assigned inside and after branches and loops), none outside the "
                   "modelled class" % len(need_pkg), not pmiss and not pbug and c.get("pkg_programs", 0) >= 100,
                   "never generated: %s; outside the class: %s; programs %s" % (pmiss, pbug, c.get("pkg_programs", 0)))
        # operator x width grid: every (operator, width) cell compiled, evaluated and agreeing
        rc_cells, cells_out = vlib.sh([ctx.hx, "grid", "-cells"], env=vlib.GOENV, timeout=60)
        want_cells = cells_out.split() if rc_cells == 0 else []
        got_cells = sorted(k[len("grid_"):] for k in c if k.startswith("grid_cell_"))
        missing_cells = [k for k in want_cells if c.get("grid_" + k, 0) == 0]
        gridcov = ctx.coverage.get("validation_grid_seed%d" % ctx.seed, {})
        ctx.coverage["grid_cells_reached"] = got_cells
        ctx.coverage["grid_cells"] = len(got_cells)
        ctx.oblige("operator x width grid: all %d (operator, width) cells (mul add sub, u/s comparisons, shl ushr sshr, "
                   "udiv umod sdiv smod smul; widths 15..130 incl. odd widths and both sides of every multiplier threshold) "
                   "compiled with two run-time operands, evaluated on boundary + random inputs and agreeing" % len(want_cells),
                   bool(want_cells) and not missing_cells and gridcov.get("disagreements", 1) == 0,
                   "missing cells: %s; grid validation: %s" % (missing_cells[:20], gridcov))
        # SSA-level tie: opcodes evaluated, nothing skipped silently
        opc = {k[len("ssaop_"):]: v for k, v in c.items() if k.startswith("ssaop_")}
        ctx.coverage["ssa_opcodes_covered"] = opc
        ctx.coverage["ssa_steps"] = sum(opc.values())
        ctx.coverage["ssa_skip_reasons"] = {k: v for k, v in c.items() if k.startswith("ssa_skip_")}
        ctx.coverage["ssa_programs_with_use_before_def"] = c.get("ssa_programs_with_use_before_def", 0)
        need_ops = ["iadd", "uadd", "isub", "usub", "imult", "umult", "idiv", "udiv", "imod", "umod", "band", "bor", "bxor",
                    "bclr", "lshift", "rshift", "srshift", "slice", "index", "ilt", "ult", "ile", "ule", "igt", "ugt",
                    "ige", "uge", "eq", "neq", "and", "or", "not", "mov", "smov", "amov", "phi", "ret"]
        miss_ops = [k for k in need_ops if opc.get(k, 0) == 0]
        ctx.oblige("SSA-level tie exercised every supported opcode (%d opcodes), skipped programs < 2%%" % len(need_ops),
                   not miss_ops and ctx.coverage.get("ssa_skipped", 0) * 50 <= max(1, ctx.coverage.get("ssa_programs", 0)),
                   "opcodes never seen: %s; skipped %s" % (miss_ops, ctx.coverage.get("ssa_skip_reasons")))
        # back end (SSA -> gates), T4: the real Program.Circuit gate list (before the optimisation passes) of a dumped
        # SSA step list = Lean ssaCompile of that step list, gate for gate; C03_backend_correct is about ssaCompile
        bops, bout, bmeta = ctx.run_hx("backend", 120 if quick else 2500)
        ctx.absorb_meta(bmeta, prefix="backend_")
        btags = {}
        ctx.correspond("backend: ssaCompile(dumped SSA steps) = real Program.Circuit gate list", bops, bout,
                       canon=lambda l: (btags.__setitem__(l.split(" ")[0], btags.get(l.split(" ")[0], 0) + 1), l.partition(" ")[2])[1])
        ctx.coverage["backend_theorem_scope"] = {k: v for k, v in btags.items() if k != "G"}
        ctx.oblige("backend tie: >= 100 programs compared gate for gate, >= 70% of them inside the hypothesis of "
                   "C03_backend_correct (tag S)", c.get("backend_compared", 0) >= 100 and
                   btags.get("S", 0) * 10 >= 7 * c.get("backend_compared", 0), "tags %s, counters %s" % (
                       btags, {k: v for k, v in c.items() if k.startswith("backend_") and "_op_" not in k}))
        ctx.coverage["programs_exhaustive_inputs"] = c.get("programs_exhaustive", 0)
        ctx.coverage["circuit_evaluations"] = c.get("evaluations", 0) + c.get("witness_evaluations", 0)
    ctx.coverage["rule"] = (
        "typed grammar generator (bool, int1..int130, uint1..uint130, arrays incl. 2-D, structs; + - * / % & | ^ &^, "
        "constant shifts incl. >= width, comparisons, && || !, casts, unary minus, variable and constant indexing, "
        "fields, calls with 1..3 results incl. nested and `return f(..)`, named results; var/:=, assignment incl. "
        "op-assign/++/--, elements and fields, if/else-if/else with early return, for loops with < <= > >= != and "
        "steps +-1..3, nested, return inside loops; twin ifs: if/else whose branches each contain an else-less inner if assigning the same variable(s) the same constant/variable under different computed conditions, also one level deeper, with early return, mixed with other assignments; the assigned variables are folded into the results); plus a fixed operator x width grid (mode `grid`): for 30 widths 15..130 (odd widths, 2^k and neighbours, both sides of every Karatsuba/array multiplier threshold) programs `a op b` with two run-time operands for * + - comparisons shifts, and for 9 widths / % signed and unsigned, on 40 (thorough 160) boundary-biased + random input pairs; 45% of the programs have <= 12 (thorough: <= 14/16) input bits "
        "and are evaluated on ALL inputs (per-program claim complete), the others on 24/48 boundary-biased tuples "
        "(0, 1, -1, min, max, min+1, -2, 0x55.., small, random per scalar component); mode `pkg` (150 / 2000 programs): the same "
        "generator with package-level declarations of package main - `var` (initialised / zero value, scalars, arrays, structs), "
        "`const` (typed / untyped, also declared after the functions), `type Name [n]T` - used directly in main and in callees, "
        "assigned in main (before / inside / after if/else and unrolled loops), shadowed by parameters, named results and "
        "function-level `var` locals of the same or another type, the shadow read and assigned before / inside / after "
        "data-dependent branches and loops (classes measured by a scope-aware walk of the finished programs); distinct = distinct program "
        "S-expressions; ~5% of the programs are probes of the remaining known deviations (inner-block redeclaration, int->wider uint cast, signed widening of a top-bit-set constant; tagged, matched narrowly); the shapes repaired in /repo (untyped literal vs narrow signed operand, constant conversion sharing `$n`, constant on the left of an unsigned comparison, named result read before assignment) occur in ordinary programs and must agree")
    ctx.assumptions += [
        "the reference semantics is the Lean interpreter Model/Mpcl.lean: Go-like block scoping, wrapping arithmetic, signed / "
        "truncating, signed % = |a| mod |b| (testsuite/lang/modi.mpcl), casts sign-extend a signed source; theorems in "
        "Props/C03.lean tie every operator to BitVec and the shipped @Test vectors to the interpreter",
        "package-level declarations: reference = Model/MpclPkg.lean (Go scoping: locals, then parameters, then the package level; "
        "theorems in Props/C03Pkg.lean); out of the quantifier because neither documentation nor a shipped test fixes them and "
        "MPCL is known to differ from Go: assignment to a package-level variable outside main or of a variable a callee uses "
        "(Pkg.ok; MPCL: main's assignment is invisible to callees, a callee's is unconditional), shadowing declarations inside "
        "blocks (function-level scoping, C03-inner-block-redeclaration), `g := e` for a package-level g (rejected: 'no new "
        "variables on left side of :='), a package-level `var` declared after a function using it (rejected: 'undefined variable')",
        "excluded from the grammar because neither documentation nor tests fix them: division by zero, out-of-range variable "
        "index, negative literals and constant-only subexpressions (constant folding is C12), constants bound to whole "
        "variables (`x = 3`, constant call arguments), unsized int/uint, pointers, slices, strings, builtins, packages",
        "the harness's printer and serialiser render the same AST (trusted; the README/testsuite programs read from the "
        "repository are paired with hand-written ASTs and validated on 64 inputs each)",
        "default compiler parameters (Yao target, all optimisations); other options/targets are C09",
        "SSA-level model: every circuit builder is replaced by the function it should compute on zero-padded operands "
        "(builder exactness is C07); the dumped steps are given in a stable topological order because Program.Circuit is a "
        "dataflow lowering and the step list occasionally uses a value before the step defining it (counted: "
        "ssa_programs_with_use_before_def); the dumped program object is the one lowered (its circuit is compared with "
        "compiler.Compile's gate by gate); the constant-to-wires rule (DefineConstants + re-sizing) is modelled in Lean",
    ]
    return ctx.finish(
        "Oracle: Lean big-step interpreter (fuel, total) of the MPCL subset; theorems: every operator of the interpreter is "
        "the BitVec operation of the declared width (incl. sdiv truncation, |a| mod |b|, arithmetic shift, casts), "
        "early-return elimination, loop unrolling for EVERY trip count (for = n-fold composition of the body, both "
        "directions), fuel irrelevance, the shipped @Test vectors evaluated in the model, witnesses of the known "
        "deviations; SSA level: Lean evaluator ssaEval of the real compiler's SSA step lists (Model/MpclSsa.lean) and the "
        "theorem that on the fragment of `lower` (literals, all operators, if/else with early return, unrolled for, arrays, structs, nested aggregates, inlined calls with several results) ssaEval(lower p) = run p for a Lean model `lower` of ssagen, itself tied to the real ssagen on every run (mode lower) "
        "(C03_ssa_lower_correct_partial).  Validation, three-way on every generated program and input: ssaEval(dumped "
        "real SSA) = Lean source interpreter = real compiler.Compile + circuit.Compute (a source-vs-circuit disagreement "
        "is localised to AST->SSA or SSA->circuit by the middle term), on generated programs "
        "(exhaustive inputs where <= 12..16 input bits) and on README/testsuite programs; all @Test vectors of "
        "/repo/testsuite through the real compiler (sha512-dependent files skipped: circuit files emptied in this tree).")

"""C18 SHA256(XOR) protocol: correct, resumable, canonical encodings."""
import concurrent.futures
import hashlib
import re

import vlib

LEVEL = "proof"

CURVES = ["P-224", "P-256", "P-384", "P-521"]

THEOREMS = [
    "Mpc.C18_enc_dec_id_Round1",
    "Mpc.C18_enc_dec_id_Round2",
    "Mpc.C18_enc_dec_id_Round3",
    "Mpc.C18_enc_dec_id_GarblerSession",
    "Mpc.C18_enc_dec_id_EvaluatorSession",
    "Mpc.C18_doc_len_concrete",
    "Mpc.C18_dec_total_Round1",
    "Mpc.C18_dec_total_Round2",
    "Mpc.C18_dec_total_Round3",
    "Mpc.C18_dec_total_GarblerSession",
    "Mpc.C18_dec_total_EvaluatorSession",
    "Mpc.C18_dec_canonical_Round1",
    "Mpc.C18_dec_canonical_Round2",
    "Mpc.C18_dec_canonical_Round3",
    "Mpc.C18_dec_canonical_GarblerSession",
    "Mpc.C18_dec_canonical_EvaluatorSession",
    "Mpc.C18_accepted_has_doc_len",
    "Mpc.C18_chunk_canonical",
    "Mpc.C18_rounds_no_crash",
    "Mpc.C18_offcurve_state_rejected",
    "Mpc.C18_session_mismatch_rejected",
    "Mpc.C18_curve_mismatch_rejected",
    "Mpc.C18_resume_eq",
    "Mpc.C18_round3_output_wf",
    "Mpc.C18_sha2pc_correct_given_circuit_partial",
    "Mpc.C01_decode",
    "Mpc.C06_co_delivers",
]

# branches / classes the generators must reach on every run (measured)
NEED_CODEC = (
    ["dec_%s_%s" % (k, c) for k in ("R1", "R2", "R3", "GS", "ES") for c in ("ok", "err")]
    + ["curve_P-224", "curve_P-256", "curve_P-384", "curve_P-521"]
    + ["mut_truncate_err", "mut_extend_err", "mut_bitflip_ok", "mut_bitflip_err", "mut_wrong-sid_ok",
       "mut_wrong-curve_err", "mut_wrong-curve-renamed_err", "mut_uvarint-nonminimal_err", "mut_uvarint-overflow_err",
       "mut_uvarint-len_err", "mut_inner-truncate_err", "mut_inner-extend_err", "mut_splice-p_err", "mut_magic_err",
       "mut_pristine_ok", "cont_EvaluatorRound2_err", "cont_GarblerRound3_err", "cont_EvaluatorRound4_err",
       "enc_R1_ok", "enc_R1_err", "enc_GS_ok", "enc_GS_err"])
# outcome classes that must NOT occur any more (the five repairs of 0e7671a..217fb4c)
FORBID_CODEC = ["mut_extend_ok", "mut_uvarint-nonminimal_ok", "mut_inner-truncate_ok", "mut_inner-extend_ok",
                "cont_EvaluatorRound4_panic", "cont_GarblerRound3_panic", "cont_EvaluatorRound2_panic"]
NEED_PROTO = (
    ["sessions_P-224", "sessions_P-256", "sessions_P-384", "sessions_P-521"]
    + ["restart_" + n for n in ("msg1", "garbler-session", "msg2", "evaluator-session", "msg3",
                                "msg1+garbler-session+msg2+evaluator-session+msg3")]
    + ["mismatch_round3-foreign-msg2_err", "mismatch_round4-foreign-msg3_err", "mismatch_round4-foreign-state_err",
       "mismatch_round4-foreign-msg3-forged-sid_err", "mismatch_decode-r1-other-curve_err",
       "mismatch_decode-r2-other-curve_err", "mismatch_decode-gs-other-curve_err", "mismatch_decode-es-other-curve_err",
       "mismatch_round2-msg1-other-curve_err", "mismatch_round4-msg3-other-curve-forged-sid_err",
       "real_payload_R1", "real_payload_R2", "real_payload_R3", "real_payload_GS", "real_payload_ES"])


def const(src, name):
    m = re.search(r"\b%s\s*=\s*([^\n/]+)" % re.escape(name), src)
    return m.group(1).strip() if m else None


def source_facts(ctx):
    """Constants and check sites the model hard-codes, read off the source."""
    params = vlib.strip_go_comments(vlib.repo_file("sha2pc/params.go"))
    enc = vlib.strip_go_comments(vlib.repo_file("sha2pc/encoding.go"))
    got = {k: const(params, k) for k in ("sessionIDBytes", "hashInputBitCount", "labelByteLen", "garblingKeyBytes",
                                          "garbledTableLabelCount", "outputHintCount")}
    ctx.fact("sha2pc/params.go constants", got,
             {"sessionIDBytes": "8", "hashInputBitCount": "32 * 8", "labelByteLen": "16", "garblingKeyBytes": "32",
              "garbledTableLabelCount": "42914", "outputHintCount": "256"})
    magics = dict(re.findall(r"(magic\w+)\s*=\s*\"(\w+)\"", enc))
    ctx.fact("sha2pc/encoding.go magics", magics,
             {"magicRound1": "R1", "magicRound2": "R2", "magicRound3": "R3", "magicGarblerSession": "GS",
              "magicEvalSession": "ES"})
    ctx.fact("chunkSizeLimit", const(enc, "chunkSizeLimit"), "1 * 1024 * 1024")
    counts = re.search(r"func gateCiphertextCount.*?^}", params, flags=re.S | re.M)
    body = counts.group(0) if counts else ""
    ctx.fact("gateCiphertextCount table (XOR/XNOR 0, AND 2, OR 3, INV 1)",
             [list(t) for t in re.findall(r"case ([\w., ]+):\s*return (\d)", body)],
             [["circuit.XOR, circuit.XNOR", "0"], ["circuit.AND", "2"], ["circuit.OR", "3"], ["circuit.INV", "1"]])
    g3 = vlib.strip_go_comments(vlib.go_func_body("sha2pc/garbler.go", r"GarblerRound3\(") or "")
    e4 = vlib.strip_go_comments(vlib.go_func_body("sha2pc/evaluator.go", r"EvaluatorRound4\(") or "")
    ctx.fact("GarblerRound3 compares req.SessionID with state.SessionID",
             bool(re.search(r"req\.SessionID\s*!=\s*state\.SessionID", g3)), True)
    ctx.fact("EvaluatorRound4 compares msg.SessionID with state.SessionID",
             bool(re.search(r"msg\.SessionID\s*!=\s*state\.SessionID", e4)), True)
    ctx.fact("GarblerRound3 sends both labels of every output wire (OutputHints = garbled.Wires[start:]; C04's finding)",
             bool(re.search(r"copy\(outputHints,\s*garbled\.Wires\[start:\]\)", g3)), True)
    # the repairs the model now assumes (commits 0e7671a, 68f93f2, d9a1171, 2eb87d5, 217fb4c)
    encsrc = "sha2pc/encoding.go"
    for fn in ("DecodeRound1", "DecodeGarblerSession", "DecodeEvaluatorSession", "decodeCOSenderSetup",
               "decodeChoiceBundle"):
        body = vlib.strip_go_comments(vlib.go_func_body(encsrc, fn + r"\(") or "")
        ctx.fact("%s rejects input left in the reader (reader.Len() != 0 -> error)" % fn,
                 bool(re.search(r"if\s+reader\.Len\(\)\s*!=\s*0\s*{\s*return[^\n]*Errorf", body)), True)
    cb = vlib.strip_go_comments(vlib.go_func_body(encsrc, r"decodeChoiceBundle\(") or "")
    ctx.fact("decodeChoiceBundle reads the bit field with io.ReadFull",
             bool(re.search(r"io\.ReadFull\(\s*reader\s*,\s*raw\s*\)", cb)) and not re.search(r"reader\.Read\(raw\)", cb), True)
    rc = vlib.strip_go_comments(vlib.go_func_body(encsrc, r"readChunk\(") or "")
    ctx.fact("readChunk compares the consumed prefix length with PutUvarint of the value",
             bool(re.search(r"before\s*-\s*r\.Len\(\)\s*!=\s*binary\.PutUvarint\(", rc)), True)
    dco = vlib.strip_go_comments(vlib.go_func_body("ot/co_helpers.go", r"DecryptCOCiphertexts\(") or "")
    eco = vlib.strip_go_comments(vlib.go_func_body("ot/co_helpers.go", r"EncryptCOCiphertexts\(") or "")
    ctx.fact("DecryptCOCiphertexts checks ensureOnCurve(bundle.Ax, bundle.Ay) before the first ScalarMult",
             bool(re.search(r"ensureOnCurve\(curve,\s*bundle\.Ax,\s*bundle\.Ay\)", dco)) and
             dco.find("ensureOnCurve(") < (dco.find("ScalarMult(") if "ScalarMult(" in dco else 1 << 30), True)
    ctx.fact("EncryptCOCiphertexts checks ensureOnCurve(setup.AaInvX, setup.AaInvY) before the first Add",
             bool(re.search(r"ensureOnCurve\(curve,\s*setup\.AaInvX,\s*setup\.AaInvY\)", eco)) and
             eco.find("setup.AaInvX, setup.AaInvY)") < (eco.find("curve.Add(") if "curve.Add(" in eco else 1 << 30), True)


def need(ctx, what, names):
    c = ctx.coverage.get("counters", {})
    missing = [n for n in names if not c.get(n)]
    ctx.oblige("%s generator reached every required outcome class (%d classes)" % (what, len(names)), not missing,
               "never hit: %s" % missing)


def distinct(ctx, ops):
    for line in open(ops, errors="replace"):
        if line.startswith(("dec ", "ceval ", "encR1 ", "encGS ")):
            ctx.distinct.add(hashlib.sha1(line.encode()).digest())


def run(ctx):
    ctx.prove("MpcVerif.Props.C18", THEOREMS)
    if ctx.tier == "thorough":
        ctx.leanchecker("MpcVerif.Props.C18")
    ctx.build_drv()
    source_facts(ctx)
    quick = ctx.tier == "quick"
    repo = ["-repo", vlib.REPO]
    if ctx.build_hx():
        seeds = [ctx.seed] if quick else [ctx.seed, ctx.seed + 1000, ctx.seed + 2000]
        jobs = []
        # 1. the embedded circuit against crypto/sha256 (validation) and against the Lean evaluator
        jobs.append(("circuit", 150 if quick else 800, ctx.seed, "", [],
                     "embedded circuit: Circuit.Compute = Lean Circuit.compute (= crypto/sha256 by the oracle)"))
        # 2. full sessions: digest, restarts at every boundary, foreign session / curve
        for s in (seeds if quick else seeds[:2]):
            jobs.append(("proto", 2 if quick else 6, s, "", [],
                         "real payloads of full sessions, all curves (seed %d)" % s))
        # 3. codec: structured payloads and mutation fuzz of every encoded message, one shard per curve
        for s in seeds:
            for cv in CURVES:
                jobs.append(("codec", 60 if quick else 300, s, "-" + cv, ["-extra", cv],
                             "decoder outcome classes on mutated messages, %s (seed %d)" % (cv, s)))

        def one(job):
            mode, n, seed, tag, extra, what = job
            ops, out, meta = ctx.run_hx(mode, n, seed=seed, tag=tag, extra_args=repo + extra, timeout=2400)
            model, rc = ctx.run_drv(ops)     # the model replay runs in the worker too
            return job, ops, out, meta, model, rc

        with concurrent.futures.ThreadPoolExecutor(max_workers=8) as ex:
            results = list(ex.map(one, jobs))
        run_drv = ctx.run_drv
        for job, ops, out, meta, model, rc in results:
            ctx.absorb_meta(meta)
            # vlib's correspond() with the replay that was already computed
            ctx.run_drv = lambda _ops, timeout=3000, _m=model, _rc=rc: (_m, _rc)
            try:
                ctx.correspond(job[5], ops, out)
            finally:
                ctx.run_drv = run_drv
            distinct(ctx, ops)
            if job[0] == "circuit":
                ctx.coverage["embedded_circuit"] = meta.get("circuit")
        need(ctx, "codec", NEED_CODEC)
        c = ctx.coverage.get("counters", {})
        seen = [n for n in FORBID_CODEC if c.get(n)] + [n for n in c if n.startswith("accepted_noncanonical_")]
        ctx.oblige("no accepted non-canonical input, no padded/extended/short message accepted, no round crash",
                   not seen, "occurred: %s" % seen)
        need(ctx, "proto", NEED_PROTO)
        if ctx.broken and not [f for f in ctx.fails if not ctx.is_known(f)]:
            # widened search for a concrete failing input
            for s in range(ctx.seed + 7000, ctx.seed + 7003):
                for mode, n in (("codec", 250), ("proto", 3)):
                    ops, out, meta = ctx.run_hx(mode, n, seed=s, tag="-widen", extra_args=repo, timeout=2400)
                    ctx.absorb_meta(meta, prefix="widen_")
                if [f for f in ctx.fails if not ctx.is_known(f)]:
                    break
    ctx.coverage["rule"] = (
        "codec: per curve the five real payloads of a session + payloads with boundary field values; per payload a "
        "systematic list (truncation at and around every field boundary, extension, one bit in the first/last byte of "
        "every field, foreign session id, every other magic, decoder of every other curve with/without renamed curve, "
        "length prefixes: non-minimal / 10-byte / overflow / +-1 / 0 / limit / limit+1 / 2^62, field splices 0 / ff / p "
        "/ random / swap, chunk ending inside or after the last field) + seeded random 1-2 step mutations; every "
        "accepted mutated message/state is continued into the next round on the two small curves. proto: per curve "
        "sessions on 6 input shapes, all 5 single restarts + all-at-once + random subsets, cross-session and "
        "cross-curve feeding. distinct = distinct dec/enc/ceval op lines")
    ctx.assumptions += [
        "point decompression (elliptic.UnmarshalCompressed) is an abstract function in the theorems (round-2 canonicity "
        "assumes it returns the requested parity); the driver instantiates it with y^2 = x^3 - 3x + b over the four NIST "
        "primes (constants cross-checked with crypto/elliptic on every run)",
        "the curve is an abstract commutative group with affine coordinates in the round theorems (crypto/elliptic trusted "
        "to implement one); deriveMask and AES are arbitrary functions",
        "the round functions are tied to the Go code by the oracle runs and by source facts only (not byte-compared: "
        "that would need the curve arithmetic and SHA-256 in Lean); the encoders/decoders are byte-compared",
        "that the embedded 127806-gate circuit computes SHA-256(a xor b) is VALIDATED by evaluation (Go Compute, harness "
        "evaluator, Lean Circuit.compute vs crypto/sha256), not proved",
        "encoders: big integers wider than the curve's field make writeFixedBigInt panic; excluded by the well-formedness "
        "hypotheses (coordinates and scalars always fit)",
        "Circuit.WF / outputsDefined of the embedded circuit are checked by an array-based re-implementation in the driver "
        "and in the harness (the proved definition is quadratic)",
    ]
    return ctx.finish(
        "Theorems (Props/C18.lean): decode(encode m) = m with the documented sizes for all five encodings, every curve "
        "name/width; no decoder crashes on any bytes; ALL FIVE formats are canonical (decode b = ok m implies m well formed "
        "and encode m = b: the decoders accept exactly the encoders' image, every accepted input has the documented size, "
        "length prefixes only in minimal form); rounds 2/3/4 never crash on any state/message, off-curve stored points are "
        "errors; a round run from the bytes of state and message equals the round run from the originals (every boundary, "
        "either party); foreign session ids and curve names are rejected; the evaluator outputs circuit(a,b) (composition "
        "of C01_decode and C06_co_delivers). Tie: real Encode*/Decode* vs the Lean model on real and mutated payloads of "
        "P-224/256/384/521, outcome ok(fields, re-encoding)|err|panic compared line by line; source facts require the five "
        "repairs 0e7671a/68f93f2/d9a1171/2eb87d5/217fb4c. Oracle on the real code: digest = sha256(a xor b); restart through "
        "Encode/Decode at every boundary gives byte-identical downstream messages and the same digest; decoders and "
        "continued rounds never panic; foreign session/curve rejected; NO accepted input differs from the re-encoding of "
        "what it decodes to.")

"""C18 SHA256(XOR) protocol: correct, resumable, canonical encodings."""
import concurrent.futures
import hashlib
import json
import re
import shutil

import os
import sys
import vlib

sys.path.insert(0, os.path.dirname(os.path.abspath(__file__)))
from t1 import run_t1  # noqa: E402  (T1 leaf translator tie, checks/t1.py)

LEVEL = "proof"

CURVES = ["P-224", "P-256", "P-384", "P-521"]

THEOREMS = [
    "Mpc.C18_enc_dec_id_Round1",
    "Mpc.C18_enc_dec_id_Round2",
    "Mpc.C18_enc_dec_id_Round3",
    "Mpc.C18_enc_dec_id_GarblerSession",
    "Mpc.C18_enc_dec_id_EvaluatorSession",
    "Mpc.C18_doc_len_concrete",
    "Mpc.C18_dec_total_Round1",
    "Mpc.C18_dec_total_Round2",
    "Mpc.C18_dec_total_Round3",
    "Mpc.C18_dec_total_GarblerSession",
    "Mpc.C18_dec_total_EvaluatorSession",
    "Mpc.C18_dec_canonical_Round1",
    "Mpc.C18_dec_canonical_Round2",
    "Mpc.C18_dec_canonical_Round3",
    "Mpc.C18_dec_canonical_GarblerSession",
    "Mpc.C18_dec_canonical_EvaluatorSession",
    "Mpc.C18_accepted_has_doc_len",
    "Mpc.C18_chunk_canonical",
    "Mpc.C18_rounds_no_crash",
    "Mpc.C18_offcurve_state_rejected",
    "Mpc.C18_session_mismatch_rejected",
    "Mpc.C18_curve_mismatch_rejected",
    "Mpc.C18_resume_eq",
    "Mpc.C18_round3_output_wf",
    "Mpc.C18_sha2pc_correct_given_circuit_partial",
    "Mpc.C18_hist_frame",
    "Mpc.C18_hist_failures_erased",
    "Mpc.C18_hist_isolation",
    "Mpc.C18_hist_complete_session",
    "Mpc.C18_hist_faults_rejected",
    "Mpc.C18_hist_correct_partial",
    "Mpc.C18_env_model_has_no_parameter",
    "Mpc.C18_env_hist_eq",
    "Mpc.C18_env_correct_partial",
    "Mpc.C18_env_dependence_witness",
    "Mpc.C01_decode",
    "Mpc.C06_co_delivers",
]

# branches / classes the generators must reach on every run (measured)
NEED_CODEC = (
    ["dec_%s_%s" % (k, c) for k in ("R1", "R2", "R3", "GS", "ES") for c in ("ok", "err")]
    + ["curve_P-224", "curve_P-256", "curve_P-384", "curve_P-521"]
    + ["mut_truncate_err", "mut_extend_err", "mut_bitflip_ok", "mut_bitflip_err", "mut_wrong-sid_ok",
       "mut_wrong-curve_err", "mut_wrong-curve-renamed_err", "mut_uvarint-nonminimal_err", "mut_uvarint-overflow_err",
       "mut_uvarint-len_err", "mut_inner-truncate_err", "mut_inner-extend_err", "mut_splice-p_err", "mut_magic_err",
       "mut_pristine_ok", "cont_EvaluatorRound2_err", "cont_GarblerRound3_err", "cont_EvaluatorRound4_err",
       "enc_R1_ok", "enc_R1_err", "enc_GS_ok", "enc_GS_err"])
# outcome classes that must NOT occur any more (the five repairs of 0e7671a..217fb4c)
FORBID_CODEC = ["mut_extend_ok", "mut_uvarint-nonminimal_ok", "mut_inner-truncate_ok", "mut_inner-extend_ok",
                "cont_EvaluatorRound4_panic", "cont_GarblerRound3_panic", "cont_EvaluatorRound2_panic"]
NEED_PROTO = (
    ["sessions_P-224", "sessions_P-256", "sessions_P-384", "sessions_P-521"]
    + ["restart_" + n for n in ("msg1", "garbler-session", "msg2", "evaluator-session", "msg3",
                                "msg1+garbler-session+msg2+evaluator-session+msg3")]
    + ["mismatch_round3-foreign-msg2_err", "mismatch_round4-foreign-msg3_err", "mismatch_round4-foreign-state_err",
       "mismatch_round4-foreign-msg3-forged-sid_err", "mismatch_decode-r1-other-curve_err",
       "mismatch_decode-r2-other-curve_err", "mismatch_decode-gs-other-curve_err", "mismatch_decode-es-other-curve_err",
       "mismatch_round2-msg1-other-curve_err", "mismatch_round4-msg3-other-curve-forged-sid_err",
       "real_payload_R1", "real_payload_R2", "real_payload_R3", "real_payload_GS", "real_payload_ES"])
# histories of several sessions in one process: every class of the generator must occur on every run
NEED_HIST = (
    ["hist_k2", "hist_k3", "hist_k4", "hist_curves_same", "hist_curves_mixed"]
    + ["hist_sessions_" + c for c in CURVES]
    + ["hist_shape_" + n for n in ("sequential", "round-robin", "round-robin-reversed", "garbler-batch", "random-merge")]
    + ["hist_e2_msg1-memory", "hist_e2_msg1-bytes"]
    + ["hist_g3_session-%s_msg2-%s" % (a, b) for a in ("memory", "bytes") for b in ("memory", "bytes")]
    + ["hist_e4_session-memory", "hist_e4_session-bytes"]
    # a round-3 message consumed (in memory / re-encoded at that moment) AFTER a later round 3 of another session
    + ["hist_e4_msg3-memory_after-foreign-round3", "hist_e4_msg3-bytes_after-foreign-round3",
       "hist_e4_msg3-memory_own-round3-latest", "hist_e4_msg3-bytes_own-round3-latest"]
    # FAILING steps inside the histories: every class, answered with an error, placed before the undisturbed
    # step of the same round (= retry) and after it, followed by rounds of other sessions; a round 3 whose
    # random source failed followed by two more successful round 3 of the process
    + ["hist_fault_%s_err" % c for c in ("g1_rng", "e2_rng", "g3_rng", "g3_foreign-msg", "e4_foreign-msg",
                                         "e4_foreign-state", "e2_malformed", "g3_malformed", "e4_malformed")]
    + ["hist_fault_g3_rng_key", "hist_fault_g3_rng_r", "hist_fault_g3_rng_labels", "hist_fault_g3_rng_then-two-round3",
       "hist_fault_rng_kind0", "hist_fault_rng_kind1", "hist_fault_rng_kind2", "hist_fault_malformed_cut",
       "hist_fault_malformed_extended", "hist_fault_before-own-step", "hist_fault_after-own-step",
       "hist_fault_followed-by-round123-of-other-session", "hist_fault_followed-by-step-of-other-session"])

# THE ENVIRONMENT SWEEP (harness/cmd/c18/env.go): GOMAXPROCS values under which one complete four-round session per
# curve must have been run with the right digest and the isolated run's values on every run of the check
ENV_PROCS = [1, 2, 3, 5, 7, 12, 16, 24, 61]
NEED_ENV = (
    ["env_session_complete_procs_%d_%s" % (p, c) for p in ENV_PROCS for c in CURVES]
    + ["env_session_complete_gc_-1", "env_session_complete_gc_100", "env_session_complete_gc_1",
       "env_session_complete_plain", "env_session_complete_restart-everywhere",
       # histories of interleaved sessions with failing steps, the environment changing between the steps
       "env_histories_mixed", "env_mixed_environment_changes_between_steps", "env_mixed_k2", "env_mixed_k3",
       "env_fault_g1_rng_err", "env_fault_e2_rng_err", "env_fault_g3_rng_err"]
    + ["env_step_procs_%d" % p for p in ENV_PROCS] + ["env_step_gc_-1", "env_step_gc_100", "env_step_gc_1"])
# calls through which a function can consult or depend on its environment (scheduler width, goroutines, pooled
# memory, process environment)
ENV_METHODS = ["GOMAXPROCS", "NumCPU", "NumGoroutine", "Gosched", "Getenv", "LookupEnv", "Wait", "Done", "Get", "Put",
               "Lock", "Unlock", "Do"]
ENV_TEXT = re.compile(r"^\s*go\s+(?:func\b|\w)|\bruntime\.\w+|\bsync\.(?:Pool|WaitGroup|Mutex|RWMutex|Once|Cond)\b|\bos\."
                      r"(?:Getenv|LookupEnv|Environ)\b|\bbits\.UintSize\b|\bstrconv\.IntSize\b|\bunsafe\.Sizeof\b|"
                      r"\bchan\b|\bselect\s*\{", re.M)


def env_probe(ctx):
    """STRUCTURAL PROBE (advisory): where the code reachable from the four round functions can see its execution
    environment.  (1) call sites of runtime.GOMAXPROCS / NumCPU / ..., WaitGroup, sync.Pool, locks in the round
    functions and in every function of package ot / circuit they call (gofacts callseq: same-package callees and
    function literals -- the bodies of `go` statements -- inlined); (2) `go` statements, runtime.*, sync.*, os.Getenv,
    word-size constants and channels in the non-test sources of sha2pc/, ot/, circuit/.  Whether the RESULT depends on
    the environment is decided by the environment sweep; a drift here widens that sweep."""
    entries = [("sha2pc", f) for f in ("GarblerRound1", "EvaluatorRound2", "GarblerRound3", "EvaluatorRound4")]
    src = "".join(vlib.strip_go_comments(vlib.repo_file("sha2pc/" + f)) for f in ("garbler.go", "evaluator.go"))
    entries += [("ot", f) for f in sorted(set(re.findall(r"\bot\.([A-Z]\w*)\(", src)))]
    entries += [("circuit", "Circuit." + m) for m in ("Garble", "Eval") if re.search(r"\.%s\(" % m, src)]
    got = {}
    for pkg, fn in entries:
        seq = ctx.callseq(pkg, fn, methods=ENV_METHODS)
        if isinstance(seq, str) and "not found" in seq:
            continue        # a type conversion / composite literal, not a function
        if seq:
            got["%s.%s" % (pkg, fn)] = seq
    ctx.advise("environment-sensitive calls reachable from the sha2pc round functions (runtime.GOMAXPROCS/NumCPU, WaitGroup, "
               "sync.Pool, locks): only the garbler's pooled scratch",
               got, {"circuit.Circuit.Garble": ["?.Get", "?.Put", "?.Put", "?.Put", "?.Put"]})
    text = {}
    for d in ("sha2pc", "ot", "circuit"):
        try:
            names = sorted(os.listdir(os.path.join(vlib.REPO, d)))
        except OSError:
            names = []
        for n in names:
            if not n.endswith(".go") or n.endswith("_test.go"):
                continue
            hits = sorted(set(re.sub(r"\s+", " ", m.group(0).strip()) for m in
                              ENV_TEXT.finditer(vlib.strip_go_comments(vlib.repo_file(d + "/" + n)))))
            if hits:
                text[d + "/" + n] = hits
    ctx.advise("go statements, runtime.*, sync.*, os.Getenv, word-size constants, channels in sha2pc/, ot/, circuit/ "
               "(non-test sources): sync.Pool of the garbler only",
               text, {"circuit/circuit.go": ["sync.Pool"], "circuit/garble.go": ["sync.Pool"]})


def cpu_wrapper(ctx, n_cpus):
    """A launcher that runs the harness confined to the first `n_cpus` CPUs this process may use (taskset):
    runtime.NumCPU() of the child is n_cpus.  None when that is not possible here."""
    ts = shutil.which("taskset")
    try:
        cpus = sorted(os.sched_getaffinity(0))
    except AttributeError:
        cpus = []
    if not ts or len(cpus) < n_cpus or not ctx.hx:
        return None
    path = os.path.join(ctx.work, "hx-cpus%d.sh" % n_cpus)
    with open(path, "w") as f:
        f.write("#!/bin/sh\nexec %s -c %s %s \"$@\"\n" % (ts, ",".join(str(c) for c in cpus[:n_cpus]), ctx.hx))
    os.chmod(path, 0o755)
    return path


def replay_exact(ctx):
    """`bin/check C18 --replay F`: when F holds one env-mode history (curves, inputs, tapes, the schedule with the
    environment of every step), run exactly that history on the real code before the seeded run that regenerates it."""
    if "--replay" not in sys.argv:
        return
    try:
        rp = sys.argv[sys.argv.index("--replay") + 1]
        rp = rp if os.path.isabs(rp) else os.path.join(vlib.VERIF, rp)
        f = json.load(open(rp)).get("failure") or {}
    except Exception:
        return
    if (f.get("replay") or {}).get("mode") != "env":
        return
    # in a process with the recorded number of CPUs
    m = re.search(r"NumCPU=(\d+)", str(f.get("process_environment", "")))
    exe = ctx.hx
    if m and int(m.group(1)) != len(os.sched_getaffinity(0)):
        exe = cpu_wrapper(ctx, int(m.group(1))) or ctx.hx
    rc, log = vlib.sh([exe, "replay", rp], env=vlib.GOENV, timeout=900)
    print("replayed the recorded history of %s (%s, step %s under %s):\n%s" % (
        os.path.basename(rp), f.get("sig"), f.get("event"), f.get("env_of_step"), vlib.indent(log[-3000:])))
    if rc == 1:
        g = dict(f)
        g["found_by"] = "exact replay of " + os.path.basename(rp)
        ctx.fails.append(g)


def const_exprs(*srcs):
    """All `name = <expr>` declarations of const/var blocks of the given Go sources."""
    env = {}
    for src in srcs:
        src = re.sub(r"([+\-*/])[ \t]*\n\s*", r"\1 ", src)      # expressions continued on the next line
        for m in re.finditer(r"^\s*(?:const\s+|var\s+)?(\w+)\s*(?:\w+\s*)?=\s*([^\n]+)$", src, flags=re.M):
            env.setdefault(m.group(1), m.group(2).strip())
    return env


def resolve(name, env, depth=0):
    """Value of a named Go constant: identifiers are resolved through `env`,
    len("..") of string literals and integer arithmetic are evaluated.  None when
    the expression is not of that shape."""
    if depth > 12 or name not in env:
        return None
    expr = env[name]
    sm = re.fullmatch(r'"([^"\\]*)"', expr)
    if sm:
        return sm.group(1)

    def ident(m):
        v = resolve(m.group(0), env, depth + 1)
        return repr(v) if v is not None else "None"
    e = re.sub(r"len\(\s*(\w+)\s*\)", lambda m: str(len(resolve(m.group(1), env, depth + 1) or "")), expr)
    e = re.sub(r"\b[A-Za-z_]\w*\b", ident, e)
    if not re.fullmatch(r"[\d\s+\-*/()]+", e):
        return None
    try:
        return int(eval(e.replace("/", "//"), {"__builtins__": {}}))
    except Exception:
        return None


def source_facts(ctx, probes):
    """What the model hard-codes about the code's shape.  Every item here is
    DECIDED behaviourally on every run (the byte-exact codec correspondence, the
    `circ` op, the size/restart/mismatch oracles and the repair probes of the
    proto mode); the source-text reading is therefore advisory: a drift widens
    the search, it never raises an alarm by itself.  Constants are resolved to
    values, call orders come from the go/ast extractor (helpers inlined)."""
    params = vlib.strip_go_comments(vlib.repo_file("sha2pc/params.go"))
    enc = vlib.strip_go_comments(vlib.repo_file("sha2pc/encoding.go"))
    env = const_exprs(params, enc)
    got = {k: resolve(k, env) for k in ("sessionIDBytes", "hashInputBitCount", "labelByteLen", "garblingKeyBytes",
                                         "garbledTableLabelCount", "outputHintCount", "evaluatorChoiceSignBytes",
                                         "round3PayloadLen", "chunkSizeLimit")}
    ctx.advise("sha2pc constants, resolved to values (decided by the codec correspondence, the `circ` op and the size oracle)",
               got, {"sessionIDBytes": 8, "hashInputBitCount": 256, "labelByteLen": 16, "garblingKeyBytes": 32,
                     "garbledTableLabelCount": 42914, "outputHintCount": 256, "evaluatorChoiceSignBytes": 32,
                     "round3PayloadLen": 707146, "chunkSizeLimit": 1048576})
    magics = sorted(v for k, v in ((k, resolve(k, env)) for k in env if k.lower().startswith("magic")) if isinstance(v, str))
    ctx.advise("the five two-byte magics (decided by the codec correspondence on real payloads and magic mutations)",
               magics, ["ES", "GS", "R1", "R2", "R3"])
    # call order of the curve operations: every ScalarMult / Add on a stored or received point comes after
    # ensureOnCurve (same-package helpers inlined, receivers by declared type); WHICH point is checked is
    # decided by the probes `offcurve-ES-A` / `offcurve-GS-AaInv` and the continuation runs
    pt = ["ScalarMult", "Add", "ScalarBaseMult"]
    ctx.advise("ot.DecryptCOCiphertexts: ensureOnCurve precedes the first ScalarMult",
               ctx.callseq("ot", "DecryptCOCiphertexts", methods=pt, funcs=["ensureOnCurve"]),
               ["func.ensureOnCurve", "elliptic.Curve.ScalarMult"])
    ctx.advise("ot.EncryptCOCiphertexts: three ensureOnCurve (A, AaInv, choice point) precede ScalarMult and Add",
               ctx.callseq("ot", "EncryptCOCiphertexts", methods=pt, funcs=["ensureOnCurve"]),
               ["func.ensureOnCurve", "func.ensureOnCurve", "func.ensureOnCurve", "elliptic.Curve.ScalarMult",
                "elliptic.Curve.Add"])
    ctx.advise("ot.BuildCOChoices: ensureOnCurve precedes ScalarBaseMult / Add",
               ctx.callseq("ot", "BuildCOChoices", methods=pt, funcs=["ensureOnCurve"]),
               ["func.ensureOnCurve", "elliptic.Curve.ScalarBaseMult", "elliptic.Curve.Add"])
    # the session-id comparisons (decided by the foreign-session oracle and the wrong-sid continuation runs)
    for rel, fn in (("sha2pc/garbler.go", "GarblerRound3"), ("sha2pc/evaluator.go", "EvaluatorRound4")):
        body = vlib.strip_go_comments(vlib.go_func_body(rel, fn + r"\(") or "")
        ctx.advise("%s compares the message's SessionID with the state's" % fn,
                   bool(re.search(r"\w+\.SessionID\s*!=\s*\w+\.SessionID", body)), True)
    # BEHAVIOURAL facts (obligations): the repairs 0e7671a, 68f93f2, d9a1171, 2eb87d5, 217fb4c as the real code
    # shows them on deterministic probe inputs of every curve, and the shape of the round-3 output hints
    want = ["trailing-R1", "trailing-GS", "trailing-ES", "inner-trailing-GS", "inner-trailing-ES", "short-bits-ES",
            "nonminimal-uvarint-R1", "nonminimal-uvarint-R2", "nonminimal-uvarint-GS", "nonminimal-uvarint-ES",
            "offcurve-ES-A", "offcurve-GS-AaInv"]
    if probes is not None:
        ncurves = len(CURVES)
        bad = {k: v for k, v in probes.items() if k.startswith("probe_") and not k.endswith("_err")}
        miss = [w for w in want if probes.get("probe_%s_err" % w, 0) < ncurves]
        ctx.oblige("the real decoders/rounds answer every repair probe with an error on all four curves "
                   "(trailing bytes, bytes after the last field of the inner chunk, short bit field, padded length "
                   "prefix, off-curve stored A / AaInv)", not bad and not miss, "other outcomes: %s; missing: %s" % (bad, miss))
        ctx.oblige("the decoded round-3 message of a real session carries, for every output wire, two distinct labels "
                   "with one common XOR offset (the model's Round3.hints; property C04 decides what that leaks)",
                   probes.get("hints_both_labels_common_offset", 0) >= ncurves and not probes.get("hints_not_both_labels"),
                   str({k: v for k, v in probes.items() if k.startswith("hints_")}))


def need(ctx, what, names):
    c = ctx.coverage.get("counters", {})
    missing = [n for n in names if not c.get(n)]
    ctx.oblige("%s generator reached every required outcome class (%d classes)" % (what, len(names)), not missing,
               "never hit: %s" % missing)


def distinct(ctx, ops):
    for line in open(ops, errors="replace"):
        if line.startswith(("dec ", "ceval ", "encR1 ", "encGS ", "hist ", "histe ")):
            ctx.distinct.add(hashlib.sha1(line.encode()).digest())


def run(ctx):
    ctx.prove("MpcVerif.Props.C18", THEOREMS)
    run_t1(ctx, ["C18"])          # sha2pc.pointSign = Sha2pc.pointSign
    if ctx.tier == "thorough":
        ctx.leanchecker("MpcVerif.Props.C18")
    ctx.build_drv()
    quick = ctx.tier == "quick"
    repo = ["-repo", vlib.REPO]
    if ctx.build_hx():
        replay_exact(ctx)
        seeds = [ctx.seed] if quick else [ctx.seed, ctx.seed + 1000, ctx.seed + 2000]
        jobs = []
        # 1. the embedded circuit against crypto/sha256 (validation) and against the Lean evaluator
        jobs.append(("circuit", 150 if quick else 800, ctx.seed, "", [],
                     "embedded circuit: Circuit.Compute = Lean Circuit.compute (= crypto/sha256 by the oracle)"))
        # 2. full sessions: digest, restarts at every boundary, foreign session / curve
        for s in (seeds if quick else seeds[:2]):
            jobs.append(("proto", 2 if quick else 6, s, "", [],
                         "real payloads of full sessions, all curves (seed %d)" % s))
        # 2b. HISTORIES: 2..4 sessions (same / different curves) in one process, rounds interleaved in every
        # kind of order, inputs consumed in memory and through bytes, FAILING steps (random source, foreign / mutated
        # message) in between, the whole process observed after every step
        for s in ((ctx.seed, ctx.seed + 500) if quick else (ctx.seed, ctx.seed + 500, ctx.seed + 1000, ctx.seed + 1500)):
            jobs.append(("hist", 8 if quick else 24, s, "", [],
                         "histories of several sessions in one process, failing steps included: status and state after every step = Proc.runD (seed %d)" % s))
        # 2c. THE ENVIRONMENT: one session per curve under every GOMAXPROCS of the sweep x collector settings (plain /
        # restart at every boundary), histories of interleaved sessions with failing steps whose every step runs in its
        # own environment; the model ignores the environment (Proc.runE of the constant family)
        wide = [] if quick else ["wide"]
        for s in (seeds[:1] if quick else seeds[:2]):
            for shard in ("P-224,P-256", "P-384", "P-521"):
                jobs.append(("env", 0, s, "-" + shard, ["-extra", ",".join([shard] + wide)],
                             "environment sweep %s: status and state after every step under every GOMAXPROCS / collector "
                             "setting = Proc.runE of the model, which has no environment parameter (seed %d)" % (shard, s)))
            jobs.append(("env", 4 if quick else 16, s, "-mixed", ["-extra", ",".join(["mixed"] + wide)],
                         "histories with a different environment at every step = Proc.runE (seed %d)" % s))
        # 3. codec: structured payloads and mutation fuzz of every encoded message, one shard per curve; every shard
        # process in another environment (GOMAXPROCS of the child process; recorded in every failure)
        for si, s in enumerate(seeds):
            for ci, cv in enumerate(CURVES):
                jobs.append(("codec", 60 if quick else 300, s, "-" + cv, ["-extra", cv],
                             "decoder outcome classes on mutated messages, %s (seed %d)" % (cv, s),
                             {"GOMAXPROCS": str([3, 5, 7, 12, 1, 24, 61, 2][(ci + 4 * si + ctx.seed) % 8])}))
        # 2d. THE NUMBER OF CPUs of the process (runtime.NumCPU is fixed at process start by the affinity mask; the
        # default GOMAXPROCS follows it): the environment sweep again in child processes confined to 3 / 5 / 7 CPUs
        for n_cpus in ([[3, 5, 7][ctx.seed % 3]] if quick else [3, 5, 7]):
            w = cpu_wrapper(ctx, n_cpus)
            if w:
                jobs.append(("env", 2 if quick else 4, ctx.seed, "-cpus%d" % n_cpus,
                             ["-extra", "P-256,mixed" if quick else "P-224,P-256,P-384,mixed"],
                             "environment sweep in a process confined to %d CPUs (NumCPU = %d) = Proc.runE (seed %d)" % (
                                 n_cpus, n_cpus, ctx.seed), None, w, "cpus%d_" % n_cpus))
        if not quick:
            # a second proto run of the first seed's sessions in a narrow, odd environment with an eager collector
            jobs.append(("proto", 6, seeds[0], "-env", [], "real payloads of full sessions, all curves, GOMAXPROCS=3 GOGC=1 "
                         "(seed %d)" % seeds[0], {"GOMAXPROCS": "3", "GOGC": "1"}))

        def one(job):
            mode, n, seed, tag, extra, what = job[:6]
            penv = job[6] if len(job) > 6 else None
            ops, out, meta = ctx.run_hx(mode, n, seed=seed, tag=tag, extra_args=repo + extra, timeout=2400, env=penv,
                                        binary=job[7] if len(job) > 7 else None)
            model, rc = ctx.run_drv(ops)     # the model replay runs in the worker too
            return job, ops, out, meta, model, rc

        with concurrent.futures.ThreadPoolExecutor(max_workers=8) as ex:
            results = list(ex.map(one, jobs))
        run_drv = ctx.run_drv
        for job, ops, out, meta, model, rc in results:
            ctx.absorb_meta(meta, prefix=job[8] if len(job) > 8 else "")
            # vlib's correspond() with the replay that was already computed
            ctx.run_drv = lambda _ops, timeout=3000, _m=model, _rc=rc: (_m, _rc)
            try:
                ctx.correspond(job[5], ops, out)
            finally:
                ctx.run_drv = run_drv
            distinct(ctx, ops)
            if job[0] == "circuit":
                ctx.coverage["embedded_circuit"] = meta.get("circuit")
        source_facts(ctx, ctx.coverage.get("counters", {}))
        env_probe(ctx)
        need(ctx, "codec", NEED_CODEC)
        c = ctx.coverage.get("counters", {})
        seen = [n for n in FORBID_CODEC if c.get(n)] + [n for n in c if n.startswith("accepted_noncanonical_")]
        ctx.oblige("no accepted non-canonical input, no padded/extended/short message accepted, no round crash",
                   not seen, "occurred: %s" % seen)
        need(ctx, "proto", NEED_PROTO)
        need(ctx, "history", NEED_HIST)
        # THE TIE OF THE ENVIRONMENT ASSUMPTION (Props/C18.lean (G), `EnvCfg.AgreesOn`): under every environment of the
        # sweep a complete session per curve gave the isolated run's values and the right digest, and no step of any
        # environment history disagreed with the environment-free model (oracle c18-env-*, correspondence `histe`)
        c = ctx.coverage.get("counters", {})
        missing = [n for n in NEED_ENV if not c.get(n)]
        envfails = [f for f in ctx.fails if str(f.get("sig", "")).startswith("c18-env") or
                    str(f.get("class", "")).startswith("env-")]
        missing += [n for n in ("cpus%d_oracle_fail" % k for k in (3, 5, 7)) if c.get(n)]
        ctx.oblige("ASSUMPTION TIE: the real round functions are environment independent on the sweep -- one complete "
                   "four-round session per curve under GOMAXPROCS in %s, collector off / 100 / 1, plain and with a restart at "
                   "every boundary, and histories whose environment changes between the steps: every status, every value, "
                   "every digest as in the reference environment (%d classes)" % (ENV_PROCS, len(NEED_ENV)),
                   not missing and not envfails,
                   "never completed: %s; environment-dependent outcomes: %d (first: %s)" % (
                       missing, len(envfails), json.dumps({k: v for k, v in (envfails[0] if envfails else {}).items()
                                                           if k != "replay"})[:700]))
        ncpu = sorted(int(k[4:].split("_")[0]) for k in c if k.startswith("cpus") and k.endswith("_env_steps"))
        have_ts = bool(shutil.which("taskset"))
        ctx.oblige("environment sweep also run in a child process confined to fewer CPUs (runtime.NumCPU = 3 / 5 / 7; skipped and "
                   "recorded when taskset is not available), complete sessions there",
                   not have_ts or bool(ncpu and all(c.get("cpus%d_env_session_complete_plain" % n, 0) +
                                                    c.get("cpus%d_env_session_complete_restart-everywhere" % n, 0) > 0
                                                    for n in ncpu)),
                   "taskset available: %s; NumCPU values run: %s" % (have_ts, ncpu))
        ctx.coverage["environments"] = {
            "num_cpu_of_child_processes": ncpu + [len(os.sched_getaffinity(0))],
            "procs_swept": sorted(int(k.split("_")[-1]) for k in c if k.startswith("env_step_procs_")),
            "gc_swept": sorted(int(k.split("_")[-1]) for k in c if k.startswith("env_step_gc_")),
            "word_bits": 64, "steps_run_under_a_set_environment": c.get("env_steps", 0)}
        if ctx.widen:
            # a drifted probe / broken obligation: the environment sweep with many more scheduler widths, all curves
            ops, out, meta = ctx.run_hx("env", 8, seed=ctx.seed + 7000, tag="-widen", extra_args=repo + ["-extra", "wide"],
                                        timeout=2400)
            ctx.absorb_meta(meta, prefix="widen_")
        if ctx.widen:
            # widened search for a concrete failing input
            for s in range(ctx.seed + 7000, ctx.seed + 7003):
                for mode, n in (("codec", 250), ("proto", 3), ("hist", 16)):
                    ops, out, meta = ctx.run_hx(mode, n, seed=s, tag="-widen", extra_args=repo, timeout=2400)
                    ctx.absorb_meta(meta, prefix="widen_")
                if ctx.fails:
                    break
    else:
        source_facts(ctx, None)
    ctx.coverage["rule"] = (
        "codec: per curve the five real payloads of a session + payloads with boundary field values; per payload a "
        "systematic list (truncation at and around every field boundary, extension, one bit in the first/last byte of "
        "every field, foreign session id, every other magic, decoder of every other curve with/without renamed curve, "
        "length prefixes: non-minimal / 10-byte / overflow / +-1 / 0 / limit / limit+1 / 2^62, field splices 0 / ff / p "
        "/ random / swap, chunk ending inside or after the last field) + seeded random 1-2 step mutations; every "
        "accepted mutated message/state is continued into the next round on the two small curves. proto: per curve "
        "sessions on 6 input shapes, all 5 single restarts + all-at-once + random subsets, cross-session and "
        "cross-curve feeding. hist: histories of k = 2..4 sessions in ONE process (same curve / different curves, all "
        "four curves), 5 interleaving shapes (sequential, round-robin = all round 1, all round 2, ..., the same reversed, "
        "batching garbler, uniformly random merges), each step consuming each input in memory or through bytes encoded at "
        "that moment (seeded), round 4 repeated at later points and once more for every session after all other steps; "
        "FAILING STEPS in every history: the random source of round 1, of round 2 and (twice) of round 3 fails at a "
        "seeded byte offset inside what the round draws (uniform + the boundaries key | R | input labels of round 3; "
        "error without bytes / error with the bytes before the offset / short read then error), one foreign input "
        "(round-2 message, round-3 message, evaluator state of another session of the history) and one message cut or "
        "extended in transit (to 0 / 1 / 10 / documented length - 1 / seeded length, + 1 byte) in rotation; a failing "
        "step stands right before the undisturbed step of the same round (= retry with a good source) or at a seeded "
        "later point, steps of the other sessions follow; "
        "after EVERY step the deep hash of every live message/session object of every session is compared with its "
        "production-time value, with the isolated run of the same session and (correspondence) with Proc.run of the "
        "model (Proc.runD: a step that fails leaves the whole process state as it was, its status is err). "
        "env: per curve one session (seeded inputs and tapes; reference values from its isolated run under GOMAXPROCS=1, "
        "collector off) run start to finish -- rounds 1,2,3,4 (+ round 4 again on the fast curves), all in memory or all "
        "through bytes -- under GOMAXPROCS in {1,2,3,5,7,12,16,24,61} (thorough / widened: 20 more values up to 300) with the "
        "collector off / 100 / 1 in rotation; 4 (thorough 16) histories of 2..3 interleaved sessions with failing steps as in "
        "hist, EVERY step under its own seeded environment (GOMAXPROCS and collector set around the step, restored "
        "afterwards: the environment changes between any two rounds); same oracle as hist (signatures c18-env-*), op "
        "`histe` = Proc.runE of the constant family; the replay of a failure is exactly that history (`c18 replay`). The "
        "The sweep of P-256 (thorough: P-224/256/384) and 2 (4) mixed histories run once more in a child process confined to "
        "3 / 5 / 7 CPUs with taskset (runtime.NumCPU, fixed at process start, = 3 / 5 / 7; quick: one of them by seed). The "
        "codec shards run as child processes under GOMAXPROCS 3/5/7/12/1/24/61/2 in rotation, thorough adds a proto run "
        "under GOMAXPROCS=3 GOGC=1 (environment recorded in every failure). "
        "distinct = distinct dec/enc/ceval/hist/histe op lines")
    ctx.assumptions += [
        "point decompression (elliptic.UnmarshalCompressed) is an abstract function in the theorems (round-2 canonicity "
        "assumes it returns the requested parity); the driver instantiates it with y^2 = x^3 - 3x + b over the four NIST "
        "primes (constants cross-checked with crypto/elliptic on every run)",
        "the curve is an abstract commutative group with affine coordinates in the round theorems (crypto/elliptic trusted "
        "to implement one); deriveMask and AES are arbitrary functions",
        "the round functions are tied to the Go code by the oracle runs and by source facts only (not byte-compared: "
        "that would need the curve arithmetic and SHA-256 in Lean); the encoders/decoders are byte-compared",
        "histories: the model's rounds are PURE functions, so frame/isolation hold in the model by construction; that "
        "the real process behaves so is decided on the sampled histories (single goroutine; the values a session "
        "produces alone are the model's round-function table, compared as deep hashes of all reachable fields)",
        "ENVIRONMENT: the model's round functions are functions of (inputs, randomness, messages) only "
        "(C18_env_model_has_no_parameter); that the real round functions compute the same in every execution environment "
        "(EnvCfg.AgreesOn, hypothesis of C18_env_correct_partial) is an ASSUMPTION, tied on every run by the environment "
        "sweep (GOMAXPROCS 1..61 / up to 300 when widened, collector off/100/1, per step; runtime.NumCPU 3/5/7/16 per child "
        "process) and watched by the structural "
        "probe (no runtime.GOMAXPROCS / NumCPU / go statement reachable from the rounds; sync.Pool of the garbler only). "
        "Not varied: the word size (the repository does not compile for GOARCH=386: p2p/network.go connMagicMask overflows "
        "int), GOOS, GOAMD64 level / assembly vs generic crypto code paths, GODEBUG settings, memory limits; proto, hist "
        "and circuit modes run in ONE environment (proto: the machine's CPU count, hist: GOMAXPROCS=1 with the collector "
        "off so that pooled-memory reuse is deterministic)",
        "failing random source: the Lean round functions take the drawn values as arguments, so `a round whose source "
        "fails returns an error` is the DEFINITION of the model's x1/x2/x3 (every read in GarblerRound1/3, "
        "EvaluatorRound2, GenerateCOSenderSetup, BuildCOChoices, Circuit.Garble, ot.NewLabel is followed by an error "
        "return); it is tied to the real code by the hist correspondence (status err, state unchanged) at every sampled "
        "offset/kind, not derived.  ot.NewLabel accepts a short read without error (rand.Read, no ReadFull): a short "
        "read that is the LAST read of round 3 would go unnoticed; the generator keeps short reads 16 bytes away from "
        "the end (label entropy is property C01's business)",
        "a foreign value is consumed through bytes only between sessions of one curve (Encode* of a value of a wider "
        "curve with the narrower curve's width is outside the encoders' domain, see the writeFixedBigInt assumption)",
        "that the embedded 127806-gate circuit computes SHA-256(a xor b) is VALIDATED by evaluation (Go Compute, harness "
        "evaluator, Lean Circuit.compute vs crypto/sha256), not proved",
        "encoders: big integers wider than the curve's field make writeFixedBigInt panic; excluded by the well-formedness "
        "hypotheses (coordinates and scalars always fit)",
        "Circuit.WF / outputsDefined of the embedded circuit are checked by an array-based re-implementation in the driver "
        "and in the harness (the proved definition is quadratic)",
    ]
    return ctx.finish(
        "Theorems (Props/C18.lean): decode(encode m) = m with the documented sizes for all five encodings, every curve "
        "name/width; no decoder crashes on any bytes; ALL FIVE formats are canonical (decode b = ok m implies m well formed "
        "and encode m = b: the decoders accept exactly the encoders' image, every accepted input has the documented size, "
        "length prefixes only in minimal form); rounds 2/3/4 never crash on any state/message, off-curve stored points are "
        "errors; a round run from the bytes of state and message equals the round run from the originals (every boundary, "
        "either party); foreign session ids and curve names are rejected; the evaluator outputs circuit(a,b) (composition "
        "of C01_decode and C06_co_delivers); HISTORIES WITH FAILING STEPS: in a process holding several sessions a step "
        "changes only the slots it produces and a step that does not succeed (failing random source, foreign or mutated "
        "message) changes NOTHING (frame), every history equals the history of its successful events and, when the "
        "disturbed events fail, the failure-free history of the undisturbed ones (failures erased, induction over the "
        "schedule), the state of a session after any interleaving is what its own undisturbed steps produce (isolation), "
        "every session whose undisturbed steps are rounds 1,2,3,4+ ends -- whatever failed in between, its own rounds "
        "included (retry) -- with the values of its isolated run and the circuit's function of its own inputs; for the "
        "sha2pc rounds a failing source and a cut/extended message fail in every state, a foreign message/state fails "
        "when the session ids differ. ENVIRONMENT: the model's rounds have no environment parameter; for every implementation "
        "indexed by the environment (GOMAXPROCS, collector, word size) that agrees with the model in the environments of a "
        "history, the history with a different environment at every step is the environment-free history, so every complete "
        "session ends with the circuit's function of its inputs; the agreement is an assumption, needed (witness: work "
        "split over `procs` workers with the remainder dropped is right exactly when procs divides the batch) and tied by "
        "the environment sweep on the real code. Tie: real Encode*/Decode* vs the Lean model on real and mutated payloads of "
        "P-224/256/384/521, outcome ok(fields, re-encoding)|err|panic compared line by line; source facts require the five "
        "repairs 0e7671a/68f93f2/d9a1171/2eb87d5/217fb4c. Oracle on the real code: digest = sha256(a xor b); restart through "
        "Encode/Decode at every boundary gives byte-identical downstream messages and the same digest; decoders and "
        "continued rounds never panic; foreign session/curve rejected; NO accepted input differs from the re-encoding of "
        "what it decodes to; in histories of 2..4 interleaved sessions no returned message/session object ever changes "
        "after its production -- in particular not after a FAILED step of any session --, every disturbed step is "
        "answered with an error (no value, no crash), every undisturbed step (the retry of a failed round included) gives "
        "the isolated run's value, every digest (also of messages consumed after later rounds of other sessions, in "
        "memory and re-encoded) is sha256(a xor b) = Lean Circuit.compute.")

"""C04 Evaluator never receives both labels of a wire (offset stays secret)."""
import hashlib
import json
import os
import re

import vlib

LEVEL = "proof"

THEOREMS = [
    "Mpc.Sym.core_phi",
    "Mpc.Sym.core_below",
    "Mpc.Sym.gates_phi",
    "Mpc.Sym.C04_whole_circuit",
    "Mpc.Sym.C04_offset_not_in_span",
    "Mpc.Sym.C04_no_two_labels_of_a_wire",
    "Mpc.Sym.coarse_separates",
    "Mpc.Sym.C04_tweak_reuse_leaks",
    "Mpc.Sym.C04_stream_partial",
    "Mpc.Sym.C04_stream_restart_leaks",
    "Mpc.Sym.C04_stream_restart_rows",
    "Mpc.Sym.C04_stream_is_whole",
    "Mpc.streamGarble_persistent",
    # per-kind tweak accounting of the (streamed) gate loop: Model/TweakAcc.lean, Proofs/TweakAcc.lean, Proofs/SymAcc.lean
    "Mpc.garbleGatesAcc_code",
    "Mpc.streamGarbleAcc_flatten",
    "Mpc.garbleCore_queries_only",
    "Mpc.tweakUses_sorted",
    "Mpc.hashOf_unary",
    "Mpc.Sym.gates_phi_acc",
    "Mpc.Sym.C04_code_accounting_is_garbleGates",
    "Mpc.Sym.C04_safe_accounting_tweaks_distinct",
    "Mpc.Sym.C04_unary_tweak_shared_leaks",
    "Mpc.Sym.C04_unary_tweak_shared_leaks_aes",
    "Mpc.Sym.C04_inv_zero_tweak_stream_leaks",
    "Mpc.Sym.C04_stream_safe_accounting",
    "Mpc.Sym.C04_stream_no_two_labels_of_a_wire",
    # definedness of every gate input of a stream: Model/StreamDef.lean (driver op c04def), Proofs/StreamDef.lean
    "Mpc.wfArr_eq_wfFrom",
    "Mpc.Sym.C04_undefined_input_and_rows",
    "Mpc.Sym.C04_stream_undefined_input_leaks",
    "Mpc.Sym.C04_stream_defined_sessions_secret",
    "Mpc.Sym.C04_both_labels_leak",
    "Mpc.Sym.C04_ot_range_guard",
    "Mpc.Sym.C04_ot_range_unguarded_leaks",
    # a garbler process: overlapping sessions on one shared circuit value, scratch from the circuit's pool
    "Mpc.GProc.garble_split",
    "Mpc.GProc.pinv_step",
    "Mpc.GProc.C04_proc_serves_own",
    "Mpc.GProc.C04_proc_digest_serves_own",
    "Mpc.GProc.C04_proc_ot_serves_own_wires",
    "Mpc.Sym.servedView_own",
    "Mpc.Sym.C04_process_offset_not_in_span",
    "Mpc.Sym.C04_process_no_two_labels_of_a_wire",
    "Mpc.GProc.C04_process_secrecy",
    "Mpc.GProc.C04_proc_early_release_serves_foreign",
    "Mpc.Sym.C04_foreign_wires_two_labels",
]

# Label-carrying hand-overs of the garbler side to the connection / the OT
# sender (gofacts callseq: source order, same-package helpers inlined,
# receivers by declared type; robust against renaming and helper extraction).
# A new hand-over site must be reviewed against the model's view
# (Props/C04.lean: evaluatorView).  Table rows of the streaming garbler are
# written into the connection buffer directly (see the advisory below and the
# window scan over EVERY byte of the stream, which is what decides).
LABEL_SENDS = ["SendData", "SendLabel", "Send", "SendString"]
EXPECT_SENDS = {
    ("circuit", "Garbler"): ["p2p.Conn.SendData", "p2p.Conn.SendLabel", "p2p.Conn.SendLabel", "ot.OT.Send",
                             "p2p.Conn.SendData"],
}


def run(ctx):
    ctx.prove("MpcVerif.Props.C04", THEOREMS)
    if ctx.tier == "thorough":
        ctx.leanchecker("MpcVerif.Props.C04")
    for (pkg, fn), want in EXPECT_SENDS.items():
        ctx.fact("label-carrying hand-overs of %s.%s (helpers inlined)" % (pkg, fn), ctx.callseq(pkg, fn, LABEL_SENDS), want)
    got = ctx.callseq("compiler/ssa", "Program.Stream", LABEL_SENDS)
    ctx.fact("label-carrying hand-overs of the streaming garbler (Program.Stream, helpers inlined): key, I/O descriptions, "
             "garbler input labels, OT, result",
             [x for x in (got if isinstance(got, list) else [got]) if not x.endswith("SendString")],
             ["p2p.Conn.SendData", "p2p.Conn.SendLabel", "ot.OT.Send", "p2p.Conn.SendData"])
    # Advisory source-text expectations (a drift widens the search, it is no alarm): the tweak counter of streaming
    # mode is one per stream.  What decides is the oracle on long streamed programs (tweak reuse makes two windows of
    # the stream differ by R: theorem C04_tweak_reuse_leaks).
    sg = vlib.strip_go_comments(vlib.repo_file("circuit/stream_garble.go"))
    calls = re.findall(r"\.garbleGate\(([^;{]*?)\)\s*\n", sg)
    ctx.advise("streaming garbler passes the address of a field of the stream (not of a local) as tweak counter",
               bool(calls) and all(re.search(r"&\w+\.\w+", c) for c in calls), True)
    se = vlib.strip_go_comments(vlib.repo_file("circuit/stream_evaluator.go"))
    tv = set(re.findall(r"decrypt\(\w+, \w+, \w+, (\w+),", se))
    ctx.advise("streaming evaluator: one tweak variable, declared once, never reset",
               {"vars": len(tv), "decls": sum(len(re.findall(r"var %s uint32" % v, se)) for v in tv),
                "resets": sum(len(re.findall(r"\b%s\s*(?::=|=[^=])" % v, se)) for v in tv)},
               {"vars": 1, "decls": 1, "resets": 0})
    ctx.advise("streaming garbler writes only table rows (label bytes) into the stream besides gate headers",
               len(re.findall(r"copy\(buf\[\*bufpos:\], bytes\)", sg)), 1)
    # The process model (Model/GarblerProc.lean, early = false) has no Release between Garble and the last read of the
    # garbling.  Advisory only (a deferred or trailing Release is fine and reads differently in source order): what
    # decides is the `overlap` sessions below, whose OTs and result loops are compared with the model line by line.
    seq = ctx.callseq("circuit", "Garbler", ["Release", "Send", "ReceiveLabel"])
    last_read = max([i for i, x in enumerate(seq) if not x.endswith("Release")] or [-1]) if isinstance(seq, list) else -1
    ctx.advise("circuit.Garbler: no Release call in source order before its last read of the garbling (OT Send, result loop)",
               [x for x in (seq[:last_read] if isinstance(seq, list) else [seq]) if str(x).endswith("Release")], [])
    quick = ctx.tier == "quick"
    # the shared generic definitions are tied byte-exactly to the Go code (C02's correspondence)
    ctx.build_drv("drv_c02")
    hx2 = ctx.build_hx("c02")
    if hx2:
        ops, out, meta = ctx.run_hx("ideal", 60 if quick else 600, binary=hx2, tag="-c02tie")
        ctx.correspond("shared garbling/protocol definitions vs real sessions (byte-exact transcripts)", ops, out)
    if ctx.build_hx():
        # deviating evaluator: every OT request other than the evaluator's own wires must be refused (and the Lean guard
        # Circuit2.acceptsOtRange must give the same verdict)
        ops, out, meta = ctx.run_hx("range", 40 if quick else 600, timeout=1200, tag="-range")
        ctx.absorb_meta(meta, prefix="range_")
        ctx.correspond("garbler's verdict on deviating OT requests (offset, count) vs Circuit2.acceptsOtRange", ops, out)
        for line in open(ops, errors="replace"):
            ctx.distinct.add(hashlib.sha1(line.encode()).digest())
        rc = ctx.coverage.get("counters", {})
        ctx.oblige("generator reached OT requests that reach into the garbler's own wires, with the correct end offset+count too",
                   rc.get("range_range_reaching_into_garbler_wires", 0) > 0 and rc.get("range_range_deviating_with_correct_end", 0) > 0,
                   str({k: v for k, v in rc.items() if k.startswith("range_")}))
        plan = [("whole", 120 if quick else 1500, ()), ("stream", 40 if quick else 400, ()),
                ("stream", 6 if quick else 60, ("-extra", "long")), ("sha2pc", 4 if quick else 24, ())]
        for mode, n, extra in plan:
            ops, out, meta = ctx.run_hx(mode, n, timeout=2400, extra_args=extra, tag="-long" if extra else "")
            ctx.absorb_meta(meta, prefix=mode + ("_long_" if extra else "_"))
            k = 0
            for line in open(ops, errors="replace"):
                ctx.distinct.add(hashlib.sha1(line.encode()).digest())
                k += 1
            ctx.evaluations += k
        # streaming mode gate by gate (harness/cmd/c04/streamcov.go, shadow.go): sessions chosen by gate-kind coverage; for
        # every session the tweak under which every transmitted row was hashed is re-derived from the stream and compared
        # with the per-kind accounting of the model (tweakUses codeAcc), no hash query may be made by two gates, and the
        # window scan names the rows of any pair it finds
        ctx.build_drv()
        # the instruction set of the streaming garbler, read from the current source: the arms of the opcode switch of
        # Program.Stream and the keys of the generator table its default arm indexes (harness mode opcat, go/parser)
        _, _, cat = ctx.run_hx("opcat", 0, extra_args=("-extra", vlib.REPO), tag="-cat")
        case_ops, gen_ops = cat.get("stream_case_ops") or [], cat.get("stream_generator_ops") or []
        kinds = int(cat.get("program_kinds") or 0)
        natives = cat.get("native_files") or []
        ctx.oblige("the opcode switch of Program.Stream and its generator table are found in the current source "
                   "(harness mode opcat) and the cover catalogue is not empty",
                   len(case_ops) >= 3 and len(gen_ops) >= 3 and kinds > 0, str(cat)[:2000])
        ctx.coverage["stream_opcodes"] = {"switch_arms": case_ops, "generator_table": gen_ops, "native_files": natives}
        nshapes = 10
        acc_plan = [("direct", 200 if quick else 4000, ()), ("cover", 4 * kinds if quick else 12 * kinds, ()),
                    ("cover", 3 if quick else 24, ("-extra", "long")),
                    ("cover", 2 * len(natives) if quick else nshapes * len(natives), ("-extra", "native"))]
        for mode, n, extra in acc_plan:
            sub = extra[1] if extra else ""
            pre = mode + ("_%s_" % sub if sub else "_")
            ops, out, meta = ctx.run_hx(mode, n, timeout=2400, extra_args=extra, tag="-" + sub if sub else "")
            ctx.absorb_meta(meta, prefix=pre)
            if meta.get("reuse_examples"):
                ctx.coverage.setdefault("reused_hash_query_examples", []).extend(meta["reuse_examples"][:2])
            ctx.correspond("tweaks under which the rows of real streaming sessions were hashed vs the per-kind accounting "
                           "tweakUses codeAcc (op c04acc), and whether every gate input of the stream is a defined wire vs "
                           "streamDefined = wfFrom (op c04def) (%s%s)" % (mode, " " + sub if sub else ""), ops, out)
            for line in open(ops, errors="replace"):
                ctx.distinct.add(hashlib.sha1(line.encode()).digest())
        ac = ctx.coverage.get("counters", {})
        sh = {k: v for k, v in ac.items() if "shadow_" in k or "reused" in k}
        ctx.oblige("every transmitted row of every analysed streaming session is reproduced by the model's hash functions under "
                   "some tweak (the shadow garbler explains the whole stream; its wire pairs equal the garbler's wire table)",
                   all(ac.get(p + "shadow_unrecovered_rows", 0) == 0 and ac.get(p + "shadow_unknown_input", 0) == 0
                       and ac.get(p + "shadow_gates", 0) > 0 for p in ("direct_", "cover_", "cover_long_", "cover_native_"))
                   and ac.get("direct_shadow_pairs_equal_garbler_wire_table", 0) == ac.get("direct_sessions_direct", -1)
                   and ac.get("direct_shadow_pairs_differ_from_garbler_wire_table", 0) == 0, str(sh))
        ctx.oblige("no hash query (AES input block) is made by two different gates of a stream",
                   all(ac.get(p + "sessions_with_reused_hash_query", 0) == 0
                       for p in ("direct_", "cover_", "cover_long_", "cover_native_")),
                   json.dumps(ctx.coverage.get("reused_hash_query_examples", [])[:2], indent=1)[:5000])
        # the label-level invariant on the real streaming garbler: every gate input of every analysed stream is a defined
        # wire whose two labels differ by the offset (a violation is reported by the harness as a failing input)
        modes4 = ("direct_", "cover_", "cover_long_", "cover_native_")
        ctx.oblige("every gate input of every analysed stream was judged (defined wire, label pair) and none failed without "
                   "a failing input being reported",
                   all(ac.get(p + "shadow_gate_inputs_checked", 0) > 0 for p in modes4)
                   and (sum(ac.get(p + k, 0) for p in modes4 for k in ("shadow_undefined_gate_inputs",
                        "shadow_gate_inputs_not_a_label_pair", "shadow_degenerate_rows")) == 0 or bool(ctx.fails)),
                   str({k: v for k, v in ac.items() if "gate_inputs" in k or "degenerate" in k}))
        # instruction-set coverage: every opcode Program.Stream handles occurred in a session that ran to the end.  The
        # front end of the pinned tree cannot emit three of them (concat has no constructor call; bts / btc come from
        # the peephole pass, which package.go disables): the catalogue has the programs that would produce bts / btc,
        # so they are counted as soon as the pass is enabled
        unproducible = {"concat", "bts", "btc"}
        seen_ops = {k[len("cover_ssa_op_"):] for k, v in ac.items() if k.startswith("cover_ssa_op_") and v > 0}
        seen_ops |= {k[len("cover_native_ssa_op_"):] for k, v in ac.items() if k.startswith("cover_native_ssa_op_") and v > 0}
        handled = set(case_ops) | set(gen_ops)
        missing_ops = sorted(handled - seen_ops - unproducible)
        ctx.oblige("every opcode Program.Stream handles (arms of its opcode switch + generator table, read from the current "
                   "source) occurred in a streamed session of mode cover", bool(handled) and not missing_ops,
                   "missing: %s; handled: %s" % (missing_ops, sorted(handled)))
        ctx.advise("opcodes Program.Stream handles that no program of the cover catalogue compiles to",
                   sorted(handled - seen_ops), sorted(unproducible & handled))
        ctx.oblige("native(...) calls: every circuit file under $MPCLDIR/pkg that circuit.Parse accepts was streamed, with "
                   "arguments narrower than / as wide as the declared input, constant and run-time",
                   len(natives) > 0 and all(ac.get("cover_native_kind_native_" + os.path.basename(f), 0) > 0 for f in natives)
                   and all(ac.get("cover_native_ssa_op_" + k, 0) > 0 for k in
                           ("circ", "circ_arg_narrower_than_declared", "circ_arg_as_declared", "circ_arg_constant")),
                   str({k: v for k, v in ac.items() if k.startswith("cover_native_kind") or "circ" in k}))
        need = ["direct_adj_%s_%s_shared" % (a, b) for a in "xnaoi" for b in "aoi"]
        need += ["direct_adj_%s_%s_aa" % (a, b) for a in "aoi" for b in "aoi"]
        need += ["direct_adj_across_blocks_shared", "direct_gates_wide_ids"]
        # both permute-bit values of the consuming gate's inputs in every class (the effect of a shared hash atom on two
        # rows depends on them: C04_unary_tweak_shared_leaks)
        need += ["direct_adj_%s_%s_shared_p%s%d" % (a, b, p, v) for a in "xnaoi" for b in "ao" for p in "ab" for v in (0, 1)]
        need += ["direct_adj_%s_i_shared_pa%d" % (a, v) for a in "xnaoi" for v in (0, 1)]
        need += ["cover_adj_%s_a_shared_p%s%d" % (a, p, v) for a in "xnai" for p in "ab" for v in (0, 1)]
        # what compiled programs produce: no OR gates, INV only in front of AND / after XOR, XNOR, AND
        need += ["cover_adj_i_a_aa", "cover_adj_a_a_shared", "cover_adj_x_a_shared", "cover_adj_n_a_shared", "cover_adj_a_i",
                 "cover_adj_x_i_shared", "cover_adj_n_i_shared", "cover_adj_across_blocks_shared",
                 "cover_sessions_with_ot_on_the_wire", "cover_programs_signed", "cover_long_adj_i_a_aa"]
        need += ["cover_kind_" + k for k in ("sub lt gt le ge eq ne div mod mul add and or xor bclr subc csub ltc divc shl shr "
                                             "mux index lnot land lor cast aslice bittest shiftwide builtin").split()]
        # operand shapes of the binary operators
        need += ["cover_kind_shape_" + k for k in ("value_narrowconst narrowconst_value value_fullconst value_typedconst "
                                                   "typedconst_value const_const same_twice value_topbitconst value_wideconst").split()]
        need += ["%srows_offset_mod16_%d" % (p, i) for p in ("direct_", "cover_") for i in range(16)]
        missing = [k for k in need if ac.get(k, 0) <= 0]
        ctx.oblige("gate-kind coverage of the streaming sessions: every gate kind followed by every tweak-consuming kind on a "
                   "shared wire with both permute-bit values of its inputs (direct), every adjacency class compiled programs produce and "
                   "every instruction kind (cover), "
                   "rows at every offset residue mod 16, 16- and 32-bit wire ids, real OT on the wire",
                   not missing and ac.get("cover_programs_rejected_by_compiler", 0) * 10 <= ac.get("cover_programs", 0)
                   and ac.get("cover_native_programs_rejected_by_compiler", 0) * 10 <= ac.get("cover_native_programs", 0),
                   "missing: %s" % missing)
        ctx.coverage["adjacency_classes"] = {k: v for k, v in ac.items() if "_adj_" in k}
        # a garbler PROCESS: 2..4 overlapping sessions on one shared circuit value, evaluators stalling at seeded protocol
        # points, oracle over the union of everything obtained in all sessions; the observed event order is replayed on the
        # Lean process model (drv_c04)
        ov_runs = [(ctx.seed, 150 if quick else 2500)]
        for s, n in ov_runs:
            ops, out, meta = ctx.run_hx("overlap", n, seed=s, timeout=2400, tag="-proc")
            ctx.absorb_meta(meta, prefix="overlap_")
            ctx.correspond("whose garbling every OT served / result loop decoded, overlapping sessions on one shared circuit "
                           "vs the process model (GProc.runDigest false)", ops, out)
            for line in open(ops, errors="replace"):
                ctx.distinct.add(hashlib.sha1(line.encode()).digest())
        oc = ctx.coverage.get("counters", {})
        ctx.oblige("overlap generator: sessions really overlapped, stalled at every kind of protocol point, scratch put back by "
                   "failing Garble calls, and the tape reconstruction of the secrets matched the wires handed to the OT",
                   oc.get("overlap_cases_with_overlapping_sessions", 0) > 0
                   and all(oc.get("overlap_stalled_at_" + k, 0) > 0 for k in ("init", "req", "flush1", "out"))
                   and oc.get("overlap_sessions_garble_failed", 0) > 0
                   and oc.get("overlap_truth_equals_wires_handed_to_ot", 0) > 0
                   and (oc.get("overlap_truth_differs_from_wires_handed_to_ot", 0) == 0 or bool(ctx.fails)),
                   str({k: v for k, v in oc.items() if k.startswith("overlap_")}))
        c = ctx.coverage.get("counters", {})
        ctx.coverage["window_positions_scanned"] = sum(v for k, v in c.items() if k.endswith("window_positions"))
        if ctx.widen:
            for s in range(ctx.seed + 7000, ctx.seed + 7003):
                for mode, n, extra in (("whole", 800, ()), ("stream", 200, ()), ("stream", 30, ("-extra", "long"))):
                    ops, out, meta = ctx.run_hx(mode, n, seed=s, tag="-widen" + ("-long" if extra else ""), timeout=2400,
                                                extra_args=extra)
                    ctx.absorb_meta(meta, prefix="widen_")
                ops, out, meta = ctx.run_hx("overlap", 1500, seed=s, tag="-widen-proc", timeout=2400)
                ctx.absorb_meta(meta, prefix="widen_")
                for mode, n in (("direct", 2000), ("cover", 10 * max(kinds, 23))):
                    ops, out, meta = ctx.run_hx(mode, n, seed=s, tag="-widen", timeout=2400)
                    ctx.absorb_meta(meta, prefix="widen_")
                ops, out, meta = ctx.run_hx("cover", nshapes * max(len(natives), 1), seed=s, tag="-widen-native", timeout=2400,
                                            extra_args=("-extra", "native"))
                ctx.absorb_meta(meta, prefix="widen_")
                if ctx.fails:
                    break
    ctx.coverage["rule"] = ("sessions of the three garbler protocols with real OT on the wire; every byte offset of the complete "
                            "garbler->evaluator stream is a 16-byte window; processes of 2..4 overlapping sessions on one shared "
                            "circuit value (deterministic sequential scheduler over evaluator stall points, 4 policies, failing "
                            "Garble calls), oracle over the union of all sessions' streams and OT results against secrets "
                            "re-derived from the recorded tapes; streaming sessions chosen by gate-kind and instruction-set coverage "
                            "(mode cover: one focus instruction kind per program out of the catalogue (31 kinds), the binary "
                            "operators with their operands in 9 shapes (constant narrower than / as wide as / wider than the "
                            "other operand, on either side, constant-only, one operand twice), 12 widths, both signednesses, "
                            "4+ independent tapes per program, CO and ideal OT alternating; every opcode Program.Stream handles "
                            "(read from the current source) must occur; -extra native: every circuit file under $MPCLDIR/pkg "
                            "called through native() with run-time and constant arguments in every position, narrower than and "
                            "as wide as the declared input; mode direct: Streaming.Garble on histories of generated instruction "
                            "circuits, all 15 classes (gate kind, next tweak-consuming kind) on shared wires, 16/32-bit ids), each "
                            "analysed gate by gate by a shadow garbler that re-derives every label and every tweak from the stream "
                            "and judges every gate input (defined wire, two labels differing by the offset); "
                            "distinct = distinct (circuit/program, inputs, OT, schedule) lines")
    ctx.assumptions += [
        "the free-hash model keeps the half-gate hash (encryptHalf) and the table pad (encrypt) as independent families; in "
        "the code they are one function of the block 2a+4b+t and coincide at b = 0 (hashOf_unary).  Queries of the two "
        "families can only meet under one tweak, i.e. in two different gates with a common tweak, which a safe accounting "
        "excludes (tweakUses_sorted) and the c04acc correspondence + hash-query oracle observe on the real code",
        "symbolic (free-hash) model: no computational secrecy claim; probability-2^-128 coincidences are outside it",
        "the theorem is stated for every hash model `code` that separates x from x xor R (a family from the coarsest to "
        "arbitrarily fine codes); the ideal injective code is not constructible as a Lean type (it would be circular)",
        "OT is ideal in the model (C06); the OT implementations' own messages are scanned by the oracle only",
        "process model: atoms of different sessions are different (independent random tapes, per-session hash key); "
        "sync.Pool / atomic.Pointer are linearizable objects (as in C17); the executed model takes the most recently Put scratch",
        "overlap harness: one P (GOMAXPROCS(1)) and no collection inside a case, so that a Put and the next Get on the "
        "circuit's sync.Pool meet; schedules are sequential at the granularity of evaluator stall points",
    ]
    return ctx.finish(
        "Theorems (Props/C04.lean): in the symbolic free-hash instance of the SAME generic garbling/protocol definitions that "
        "are byte-exactly tied to the Go code, a GF(2)-linear functional is 1 on the offset R and 0 on every label of the "
        "evaluator's view (all table rows, garbler input labels, OT-chosen labels) for every WF circuit, inputs and permute "
        "bits; so R is not in the span of the view. C04_tweak_reuse_leaks: reusing a tweak across two AND gates sharing an "
        "input leaks R (the pre-fix streaming mode); C04_both_labels_leak (sha2pc OutputHints). Oracle on the real code: "
        "sliding 16-byte window over every offset of the garbler->evaluator stream of whole-circuit, streaming and sha2pc "
        "sessions: no window equals R, no two windows XOR to R; OT receiver got exactly the chosen labels. Process level "
        "(Model/GarblerProc.lean on the C17 ownership model): for the code as it is every session's OT and result loop read "
        "the session's own garbling on every history (C04_proc_serves_own, C04_proc_ot_serves_own_wires), hence the union of "
        "all evaluators' views does not span any session's offset (C04_process_secrecy); harness mode overlap runs the real "
        "Garbler/Evaluator in overlapping sessions on one shared circuit and judges the union of everything obtained. "
        "Tweak accounting (Model/TweakAcc.lean): the gate loop for an arbitrary per-kind accounting; for every safe accounting "
        "(each kind reserves at least the tweaks it uses; the code's: AND 2, OR 1, INV 1) no tweak is used twice and the "
        "streaming evaluator's view of any stream of instruction circuits does not span the offset "
        "(C04_stream_safe_accounting); an accounting that reserves nothing for INV leaks through INV(a), AND(a, b) "
        "(C04_inv_zero_tweak_stream_leaks; the code's unary pad is the half-gate hash: hashOf_unary).  Modes cover / direct: "
        "the tweaks under which the rows of real streaming sessions were hashed, re-derived from the stream, equal "
        "tweakUses codeAcc (op c04acc); no AES input block is queried by two gates; every gate-adjacency class occurred.  "
        "Definedness (Model/StreamDef.lean): the streaming theorems assume that every gate input of the stream is a session "
        "input wire or the output of an earlier gate (wfFrom); the shadow garbler judges exactly that on every gate input of "
        "every analysed real session (a temporary wire must have been written by the same instruction circuit) and that the "
        "two labels of the wire differ by the offset, a violation being a failing input; the verdict is compared with "
        "streamDefined = wfFrom on the same gate list (op c04def, wfArr_eq_wfFrom, C04_stream_defined_sessions_secret); for "
        "an undefined input the transmitted rows are the offset or a raw label (C04_undefined_input_and_rows, "
        "C04_stream_undefined_input_leaks).")

"""C04 Evaluator never receives both labels of a wire (offset stays secret)."""
import hashlib
import re

import vlib

LEVEL = "proof"

THEOREMS = [
    "Mpc.Sym.core_phi",
    "Mpc.Sym.core_below",
    "Mpc.Sym.gates_phi",
    "Mpc.Sym.C04_whole_circuit",
    "Mpc.Sym.C04_offset_not_in_span",
    "Mpc.Sym.C04_no_two_labels_of_a_wire",
    "Mpc.Sym.coarse_separates",
    "Mpc.Sym.C04_tweak_reuse_leaks",
    "Mpc.Sym.C04_stream_partial",
    "Mpc.Sym.C04_stream_restart_leaks",
    "Mpc.Sym.C04_stream_restart_rows",
    "Mpc.Sym.C04_stream_is_whole",
    "Mpc.streamGarble_persistent",
    "Mpc.Sym.C04_both_labels_leak",
    "Mpc.Sym.C04_ot_range_guard",
    "Mpc.Sym.C04_ot_range_unguarded_leaks",
    # a garbler process: overlapping sessions on one shared circuit value, scratch from the circuit's pool
    "Mpc.GProc.garble_split",
    "Mpc.GProc.pinv_step",
    "Mpc.GProc.C04_proc_serves_own",
    "Mpc.GProc.C04_proc_digest_serves_own",
    "Mpc.GProc.C04_proc_ot_serves_own_wires",
    "Mpc.Sym.servedView_own",
    "Mpc.Sym.C04_process_offset_not_in_span",
    "Mpc.Sym.C04_process_no_two_labels_of_a_wire",
    "Mpc.GProc.C04_process_secrecy",
    "Mpc.GProc.C04_proc_early_release_serves_foreign",
    "Mpc.Sym.C04_foreign_wires_two_labels",
]

# Label-carrying hand-overs of the garbler side to the connection / the OT
# sender (gofacts callseq: source order, same-package helpers inlined,
# receivers by declared type; robust against renaming and helper extraction).
# A new hand-over site must be reviewed against the model's view
# (Props/C04.lean: evaluatorView).  Table rows of the streaming garbler are
# written into the connection buffer directly (see the advisory below and the
# window scan over EVERY byte of the stream, which is what decides).
LABEL_SENDS = ["SendData", "SendLabel", "Send", "SendString"]
EXPECT_SENDS = {
    ("circuit", "Garbler"): ["p2p.Conn.SendData", "p2p.Conn.SendLabel", "p2p.Conn.SendLabel", "ot.OT.Send",
                             "p2p.Conn.SendData"],
}


def run(ctx):
    ctx.prove("MpcVerif.Props.C04", THEOREMS)
    if ctx.tier == "thorough":
        ctx.leanchecker("MpcVerif.Props.C04")
    for (pkg, fn), want in EXPECT_SENDS.items():
        ctx.fact("label-carrying hand-overs of %s.%s (helpers inlined)" % (pkg, fn), ctx.callseq(pkg, fn, LABEL_SENDS), want)
    got = ctx.callseq("compiler/ssa", "Program.Stream", LABEL_SENDS)
    ctx.fact("label-carrying hand-overs of the streaming garbler (Program.Stream, helpers inlined): key, I/O descriptions, "
             "garbler input labels, OT, result",
             [x for x in (got if isinstance(got, list) else [got]) if not x.endswith("SendString")],
             ["p2p.Conn.SendData", "p2p.Conn.SendLabel", "ot.OT.Send", "p2p.Conn.SendData"])
    # Advisory source-text expectations (a drift widens the search, it is no alarm): the tweak counter of streaming
    # mode is one per stream.  What decides is the oracle on long streamed programs (tweak reuse makes two windows of
    # the stream differ by R: theorem C04_tweak_reuse_leaks).
    sg = vlib.strip_go_comments(vlib.repo_file("circuit/stream_garble.go"))
    calls = re.findall(r"\.garbleGate\(([^;{]*?)\)\s*\n", sg)
    ctx.advise("streaming garbler passes the address of a field of the stream (not of a local) as tweak counter",
               bool(calls) and all(re.search(r"&\w+\.\w+", c) for c in calls), True)
    se = vlib.strip_go_comments(vlib.repo_file("circuit/stream_evaluator.go"))
    tv = set(re.findall(r"decrypt\(\w+, \w+, \w+, (\w+),", se))
    ctx.advise("streaming evaluator: one tweak variable, declared once, never reset",
               {"vars": len(tv), "decls": sum(len(re.findall(r"var %s uint32" % v, se)) for v in tv),
                "resets": sum(len(re.findall(r"\b%s\s*(?::=|=[^=])" % v, se)) for v in tv)},
               {"vars": 1, "decls": 1, "resets": 0})
    ctx.advise("streaming garbler writes only table rows (label bytes) into the stream besides gate headers",
               len(re.findall(r"copy\(buf\[\*bufpos:\], bytes\)", sg)), 1)
    # The process model (Model/GarblerProc.lean, early = false) has no Release between Garble and the last read of the
    # garbling.  Advisory only (a deferred or trailing Release is fine and reads differently in source order): what
    # decides is the `overlap` sessions below, whose OTs and result loops are compared with the model line by line.
    seq = ctx.callseq("circuit", "Garbler", ["Release", "Send", "ReceiveLabel"])
    last_read = max([i for i, x in enumerate(seq) if not x.endswith("Release")] or [-1]) if isinstance(seq, list) else -1
    ctx.advise("circuit.Garbler: no Release call in source order before its last read of the garbling (OT Send, result loop)",
               [x for x in (seq[:last_read] if isinstance(seq, list) else [seq]) if str(x).endswith("Release")], [])
    quick = ctx.tier == "quick"
    # the shared generic definitions are tied byte-exactly to the Go code (C02's correspondence)
    ctx.build_drv("drv_c02")
    hx2 = ctx.build_hx("c02")
    if hx2:
        ops, out, meta = ctx.run_hx("ideal", 60 if quick else 600, binary=hx2, tag="-c02tie")
        ctx.correspond("shared garbling/protocol definitions vs real sessions (byte-exact transcripts)", ops, out)
    if ctx.build_hx():
        # deviating evaluator: every OT request other than the evaluator's own wires must be refused (and the Lean guard
        # Circuit2.acceptsOtRange must give the same verdict)
        ops, out, meta = ctx.run_hx("range", 40 if quick else 600, timeout=1200, tag="-range")
        ctx.absorb_meta(meta, prefix="range_")
        ctx.correspond("garbler's verdict on deviating OT requests (offset, count) vs Circuit2.acceptsOtRange", ops, out)
        for line in open(ops, errors="replace"):
            ctx.distinct.add(hashlib.sha1(line.encode()).digest())
        rc = ctx.coverage.get("counters", {})
        ctx.oblige("generator reached OT requests that reach into the garbler's own wires, with the correct end offset+count too",
                   rc.get("range_range_reaching_into_garbler_wires", 0) > 0 and rc.get("range_range_deviating_with_correct_end", 0) > 0,
                   str({k: v for k, v in rc.items() if k.startswith("range_")}))
        plan = [("whole", 120 if quick else 1500, ()), ("stream", 40 if quick else 400, ()),
                ("stream", 6 if quick else 60, ("-extra", "long")), ("sha2pc", 4 if quick else 24, ())]
        for mode, n, extra in plan:
            ops, out, meta = ctx.run_hx(mode, n, timeout=2400, extra_args=extra, tag="-long" if extra else "")
            ctx.absorb_meta(meta, prefix=mode + ("_long_" if extra else "_"))
            k = 0
            for line in open(ops, errors="replace"):
                ctx.distinct.add(hashlib.sha1(line.encode()).digest())
                k += 1
            ctx.evaluations += k
        # a garbler PROCESS: 2..4 overlapping sessions on one shared circuit value, evaluators stalling at seeded protocol
        # points, oracle over the union of everything obtained in all sessions; the observed event order is replayed on the
        # Lean process model (drv_c04)
        ctx.build_drv()
        ov_runs = [(ctx.seed, 150 if quick else 2500)]
        for s, n in ov_runs:
            ops, out, meta = ctx.run_hx("overlap", n, seed=s, timeout=2400, tag="-proc")
            ctx.absorb_meta(meta, prefix="overlap_")
            ctx.correspond("whose garbling every OT served / result loop decoded, overlapping sessions on one shared circuit "
                           "vs the process model (GProc.runDigest false)", ops, out)
            for line in open(ops, errors="replace"):
                ctx.distinct.add(hashlib.sha1(line.encode()).digest())
        oc = ctx.coverage.get("counters", {})
        ctx.oblige("overlap generator: sessions really overlapped, stalled at every kind of protocol point, scratch put back by "
                   "failing Garble calls, and the tape reconstruction of the secrets matched the wires handed to the OT",
                   oc.get("overlap_cases_with_overlapping_sessions", 0) > 0
                   and all(oc.get("overlap_stalled_at_" + k, 0) > 0 for k in ("init", "req", "flush1", "out"))
                   and oc.get("overlap_sessions_garble_failed", 0) > 0
                   and oc.get("overlap_truth_equals_wires_handed_to_ot", 0) > 0
                   and (oc.get("overlap_truth_differs_from_wires_handed_to_ot", 0) == 0 or bool(ctx.fails)),
                   str({k: v for k, v in oc.items() if k.startswith("overlap_")}))
        c = ctx.coverage.get("counters", {})
        ctx.coverage["window_positions_scanned"] = sum(v for k, v in c.items() if k.endswith("window_positions"))
        if ctx.widen:
            for s in range(ctx.seed + 7000, ctx.seed + 7003):
                for mode, n, extra in (("whole", 800, ()), ("stream", 200, ()), ("stream", 30, ("-extra", "long"))):
                    ops, out, meta = ctx.run_hx(mode, n, seed=s, tag="-widen" + ("-long" if extra else ""), timeout=2400,
                                                extra_args=extra)
                    ctx.absorb_meta(meta, prefix="widen_")
                ops, out, meta = ctx.run_hx("overlap", 1500, seed=s, tag="-widen-proc", timeout=2400)
                ctx.absorb_meta(meta, prefix="widen_")
                if ctx.fails:
                    break
    ctx.coverage["rule"] = ("sessions of the three garbler protocols with real OT on the wire; every byte offset of the complete "
                            "garbler->evaluator stream is a 16-byte window; processes of 2..4 overlapping sessions on one shared "
                            "circuit value (deterministic sequential scheduler over evaluator stall points, 4 policies, failing "
                            "Garble calls), oracle over the union of all sessions' streams and OT results against secrets "
                            "re-derived from the recorded tapes; distinct = distinct (circuit/program, inputs, OT, schedule) lines")
    ctx.assumptions += [
        "symbolic (free-hash) model: no computational secrecy claim; probability-2^-128 coincidences are outside it",
        "the theorem is stated for every hash model `code` that separates x from x xor R (a family from the coarsest to "
        "arbitrarily fine codes); the ideal injective code is not constructible as a Lean type (it would be circular)",
        "OT is ideal in the model (C06); the OT implementations' own messages are scanned by the oracle only",
        "process model: atoms of different sessions are different (independent random tapes, per-session hash key); "
        "sync.Pool / atomic.Pointer are linearizable objects (as in C17); the executed model takes the most recently Put scratch",
        "overlap harness: one P (GOMAXPROCS(1)) and no collection inside a case, so that a Put and the next Get on the "
        "circuit's sync.Pool meet; schedules are sequential at the granularity of evaluator stall points",
    ]
    return ctx.finish(
        "Theorems (Props/C04.lean): in the symbolic free-hash instance of the SAME generic garbling/protocol definitions that "
        "are byte-exactly tied to the Go code, a GF(2)-linear functional is 1 on the offset R and 0 on every label of the "
        "evaluator's view (all table rows, garbler input labels, OT-chosen labels) for every WF circuit, inputs and permute "
        "bits; so R is not in the span of the view. C04_tweak_reuse_leaks: reusing a tweak across two AND gates sharing an "
        "input leaks R (the pre-fix streaming mode); C04_both_labels_leak (sha2pc OutputHints). Oracle on the real code: "
        "sliding 16-byte window over every offset of the garbler->evaluator stream of whole-circuit, streaming and sha2pc "
        "sessions: no window equals R, no two windows XOR to R; OT receiver got exactly the chosen labels. Process level "
        "(Model/GarblerProc.lean on the C17 ownership model): for the code as it is every session's OT and result loop read "
        "the session's own garbling on every history (C04_proc_serves_own, C04_proc_ot_serves_own_wires), hence the union of "
        "all evaluators' views does not span any session's offset (C04_process_secrecy); harness mode overlap runs the real "
        "Garbler/Evaluator in overlapping sessions on one shared circuit and judges the union of everything obtained.")

"""C16 Garbler never reports a wrong result under message corruption."""
import hashlib
import os
import re
import sys

import vlib

sys.path.insert(0, os.path.dirname(os.path.abspath(__file__)))
from t1 import run_t1  # noqa: E402  (T1 leaf translator tie, checks/t1.py)

LEVEL = "proof"

THEOREMS = [
    "Mpc.C16_ok_imp_known_labels",
    "Mpc.C16_wrong_imp_offset",
    "Mpc.C16_unknown_label_is_error",
    "Mpc.C16_garblerDecode_eq",
    "Mpc.C16_wrong_gate_count",
]


def run(ctx):
    ctx.prove("MpcVerif.Props.C16", THEOREMS)
    # symbolic (free-hash, Dolev-Yao) authenticity: closes the reduction of Props/C16.lean inside the model of C04
    ctx.prove("MpcVerif.Props.C16Sym", ["Mpc.Sym.derivable_phi", "Mpc.Sym.C16_symbolic_authenticity",
                                        "Mpc.Sym.C16_symbolic_offset_not_derivable", "Mpc.Sym.C16_symbolic_no_wrong_result",
                                        "Mpc.Sym.C16_symbolic_honest_run", "Mpc.Sym.C16_symbolic_perturbed_is_error",
                                        "Mpc.Sym.C16_symbolic_corrupted_row_is_error", "Mpc.Sym.model1",
                                        "Mpc.Sym.no_total_faithful_code"])
    run_t1(ctx, ["C16"])          # circuit.BitFromLabel = WireL.bitFrom
    if ctx.tier == "thorough":
        ctx.leanchecker("MpcVerif.Props.C16")
    ctx.build_drv()
    # structural fact (gofacts callseq: helpers inlined, rename-robust): the only decoding call on the path from
    # received labels to result bits of circuit.Garbler is BitFromLabel
    ctx.fact("Garbler: result bits are set (big.Int.SetBit) only after BitFromLabel (helpers inlined)",
             ctx.callseq("circuit", "Garbler", ["SetBit"], funcs=["BitFromLabel"]),
             ["func.BitFromLabel", "?.SetBit", "?.SetBit"])
    # advisory source-text expectations: what decides is the `decide` correspondence (real result loops on scripted
    # returned labels vs Lean decodeLabels) and the fault enumeration below
    h = vlib.strip_go_comments(vlib.go_func_body("circuit/helpers.go", r"BitFromLabel\(") or "")
    ctx.advise("BitFromLabel: L0 -> false, L1 -> true, otherwise error (source text)",
               re.sub(r"\s+", " ", h)[:400],
               'func BitFromLabel(wire ot.Wire, label ot.Label) (bool, error) { switch { case label.Equal(wire.L0): '
               'return false, nil case label.Equal(wire.L1): return true, nil default: return false, '
               'fmt.Errorf("unknown label %s for wire %v", label, wire) } }')
    st = vlib.strip_go_comments(vlib.repo_file("compiler/ssa/streamer.go"))
    ctx.advise("streaming garbler result loop: Equal(L0)/Equal(L1)/else error (source text)",
               bool(re.search(r"if label\.Equal\(wire\.L0\) \{\s*bit = 0\s*\} else if label\.Equal\(wire\.L1\) \{\s*bit = 1\s*\} "
                              r"else \{\s*return nil, nil, fmt\.Errorf\(\"unknown label", st)), True)
    ev = vlib.strip_go_comments(vlib.repo_file("circuit/eval.go"))
    ctx.advise("Eval checks table row lengths (source text)",
               {"and_len": len(re.findall(r"len\(row\) != 2", ev)) >= 1, "index_bound": len(re.findall(r"index >= len\(row\)", ev)) >= 1},
               {"and_len": True, "index_bound": True})
    quick = ctx.tier == "quick"
    if ctx.build_hx():
        ops, out, meta = ctx.run_hx("decide", 300 if quick else 6000, timeout=1500)
        ctx.absorb_meta(meta, prefix="decide_")
        ctx.correspond("garbler result loop on scripted returned labels (honest/garbage/bitflip/other-label)", ops, out)
        for line in open(ops, errors="replace"):
            ctx.distinct.add(hashlib.sha1(line.encode()).digest())
        ops, out, meta = ctx.run_hx("faults", 2500 if quick else 0, timeout=2400)
        ctx.absorb_meta(meta, prefix="faults_")
        nf = 0
        for line in open(ops, errors="replace"):
            ctx.distinct.add(hashlib.sha1(line.encode()).digest())
            nf += 1
        ctx.evaluations += nf
        c = ctx.coverage.get("counters", {})
        regions = sorted(k for k in c if k.startswith("faults_region_"))
        ctx.oblige("fault enumeration reached all message kinds of whole-circuit sessions (key, tables, input labels, OT both "
                   "ways, output labels) and both directions + output labels of streaming sessions",
                   len(regions) >= 9 and nf > 0, "regions: %s" % regions)
        ctx.coverage["exhaustive"] = not quick
        if ctx.widen:
            for s in range(ctx.seed + 7000, ctx.seed + 7003):
                ops, out, meta = ctx.run_hx("faults", 4000, seed=s, tag="-widen", timeout=2400)
                ctx.absorb_meta(meta, prefix="widen_")
                if ctx.fails:
                    break
    ctx.coverage["rule"] = ("decide: random circuits, each output label honest/other/bit-flipped/garbage/zero; faults: quick = "
                            "seeded sample of (session, direction, byte position, bit flip | byte set | 16-byte burst), thorough "
                            "= every byte position of both directions of 8 sessions (CO, COT, COT-malicious on the wire); "
                            "distinct = distinct op lines")
    ctx.assumptions += [
        "authenticity of the garbling scheme under corruption (no transit corruption makes the evaluator produce label xor r) "
        "is proved SYMBOLICALLY (free hash, Dolev-Yao adversary limited to xor / hashing under any tweak / select bits / fresh labels: "
        "Props/C16Sym.lean, C16_symbolic_authenticity, C16_symbolic_no_wrong_result); the COMPUTATIONAL statement for the AES-based hash is "
        "cryptographic, outside Lean, and covered by fault enumeration on the real code",
        "streaming sessions take part in the fault enumeration (2-3 small programs, CO on the wire); their session key comes "
        "from crypto/rand, so positions are reproducible but not the bytes",
    ]
    return ctx.finish(
        "Theorems: if the garbler's result loop succeeds on ARBITRARY received labels, each is one of the wire's two labels and "
        "a wrong value implies some label = honest label xor r (C16_wrong_imp_offset); unknown labels and wrong gate counts "
        "take error branches; in the symbolic free-hash model the other label of a wire is not derivable from the evaluator's view, so "
        "adversary-derivable output labels give an error or exactly the plain evaluation (C16_symbolic_no_wrong_result). Tie: real circuit.Garbler against a scripted evaluator returning chosen labels vs the Lean "
        "decision logic; structural facts (single BitFromLabel path, row-length checks). Oracle: fault enumeration at byte "
        "positions of both directions of complete sessions, one child process per case; outcome must be "
        "error|stalled|crash|ok(correct).")

"""C16 Garbler never reports a wrong result under message corruption."""
import hashlib
import json
import os
import re
import subprocess
import sys

import vlib

sys.path.insert(0, os.path.dirname(os.path.abspath(__file__)))
from t1 import run_t1  # noqa: E402  (T1 leaf translator tie, checks/t1.py)

LEVEL = "proof"

THEOREMS = [
    "Mpc.C16_ok_imp_known_labels",
    "Mpc.C16_wrong_imp_offset",
    "Mpc.C16_unknown_label_is_error",
    "Mpc.C16_garblerDecode_eq",
    "Mpc.C16_wrong_gate_count",
    # streaming sessions: the result loop consumes exactly Outputs.Size labels
    "Mpc.C16_streamResultLoop_eq_decode",
    "Mpc.C16_stream_result_count",
    "Mpc.C16_stream_short_is_error",
    "Mpc.C16_stream_wrong_imp_offset",
    "Mpc.C16_block_loop_accepts_short_block",      # negation witness for a loop resolving len(block)/16 labels
    # what the reduction does not cover: the evaluator's input bits come from the (unauthenticated) argument description
    "Mpc.C16_labels_of_other_input_accepted",
    "Mpc.C16_description_member_width_witness",
    "Mpc.C16_description_residual_witness",
    # the local check of the description covers EVERY record of the tree; a check applied once at the root does not
    "Mpc.C16_desc_ok_iff_every_node",
    "Mpc.C16_desc_oks_iff_every_node",
    "Mpc.C16_desc_ok_every_width",
    "Mpc.C16_root_only_check_accepts_inconsistent_member",    # negation witness for a check applied only at the root
]

STREAM_REGIONS = ["stream_key", "stream_description", "stream_inputlabels", "stream_g2e_ot", "stream_instructions",
                  "stream_e2g_ot", "stream_result_framing", "stream_outputlabels"]
WHOLE_REGIONS = ["key", "tables", "inputlabels", "ot_sender", "resultdata", "ot_receiver_and_range", "outputlabels"]
LENGTH_KINDS = ["keylen", "namelen", "typelen", "typedigit", "bits", "ccount", "nout", "nsteps", "ngates", "ntmp", "nwires",
                "reslen"]


GRAM_KINDS = ["sc", "ss", "ar", "sl", "sa", "sv", "ns", "as"]


def replay_exact(ctx):
    """`bin/check C16 --replay F`: when F holds one fault case of a session (session index, direction, offset, mask,
    and for streaming sessions the program name and both parties' input strings), run exactly that case again on the
    real code (one child process of the harness, as the enumeration does) before the seeded run."""
    if "--replay" not in sys.argv:
        return
    try:
        rp = sys.argv[sys.argv.index("--replay") + 1]
        rp = rp if os.path.isabs(rp) else os.path.join(vlib.VERIF, rp)
        f = json.load(open(rp)).get("failure") or {}
    except Exception:
        return
    if not f.get("fault") or "seed" not in f:
        return
    argv = [ctx.hx, "faultchild", str(int(f["seed"])), "3000"] + str(f["fault"]).split()
    if f.get("mode") == "streaming":
        argv += [str(f.get("program")), str(f.get("garbler_inputs", "")), str(f.get("evaluator_inputs", ""))]
    env = dict(os.environ)
    env.update(vlib.GOENV)
    classes = []
    for _ in range(3):          # the session key of a streaming session is fresh in every run
        try:
            out = subprocess.run(argv, env=env, capture_output=True, text=True, timeout=120).stdout
        except Exception as e:  # noqa: BLE001
            out = "DONE crash %s" % e
        cl = [ln[5:] for ln in out.splitlines() if ln.startswith("DONE ")]
        classes.append(cl[-1] if cl else "crash")
    print("replayed fault `%s` of %s session %s%s; garbler's outcome in 3 runs on this tree:\n  %s" % (
        f["fault"], f.get("mode"), f.get("session"),
        " (%s, inputs %s | %s)" % (f.get("program"), f.get("garbler_inputs"), f.get("evaluator_inputs"))
        if f.get("mode") == "streaming" else "", " | ".join(classes)))
    wrong = [c for c in classes if c.startswith("WRONG")]
    if wrong:
        g = dict(f)
        g["class"] = wrong[0]
        g["found_by"] = "exact replay of " + os.path.basename(rp)
        print("  FAILS AGAIN: the garbler returns a wrong result as success")
        ctx.fails.append(g)
    else:
        print("  the recorded case does not give a wrong result on this tree")
    ctx.oblige("exact replay of the recorded fault case: outcome error | stalled | crash | ok(correct)", not wrong,
               "%s -> %s" % (" ".join(argv[1:]), classes))


def run(ctx):
    ctx.prove("MpcVerif.Props.C16", THEOREMS)
    # symbolic (free-hash, Dolev-Yao) authenticity: closes the reduction of Props/C16.lean inside the model of C04
    ctx.prove("MpcVerif.Props.C16Sym", ["Mpc.Sym.derivable_phi", "Mpc.Sym.C16_symbolic_authenticity",
                                        "Mpc.Sym.C16_symbolic_offset_not_derivable", "Mpc.Sym.C16_symbolic_no_wrong_result",
                                        "Mpc.Sym.C16_symbolic_honest_run", "Mpc.Sym.C16_symbolic_perturbed_is_error",
                                        "Mpc.Sym.C16_symbolic_corrupted_row_is_error", "Mpc.Sym.model1",
                                        "Mpc.Sym.no_total_faithful_code"])
    run_t1(ctx, ["C16"])          # circuit.BitFromLabel = WireL.bitFrom
    if ctx.tier == "thorough":
        ctx.leanchecker("MpcVerif.Props.C16")
    ctx.build_drv()
    # structural fact (gofacts callseq: helpers inlined, rename-robust): the only decoding call on the path from
    # received labels to result bits of circuit.Garbler is BitFromLabel
    ctx.fact("Garbler: result bits are set (big.Int.SetBit) only after BitFromLabel (helpers inlined)",
             ctx.callseq("circuit", "Garbler", ["SetBit"], funcs=["BitFromLabel"]),
             ["func.BitFromLabel", "?.SetBit", "?.SetBit"])
    # advisory source-text expectations: what decides is the `decide` correspondence (real result loops on scripted
    # returned labels vs Lean decodeLabels) and the fault enumeration below
    h = vlib.strip_go_comments(vlib.go_func_body("circuit/helpers.go", r"BitFromLabel\(") or "")
    ctx.advise("BitFromLabel: L0 -> false, L1 -> true, otherwise error (source text)",
               re.sub(r"\s+", " ", h)[:400],
               'func BitFromLabel(wire ot.Wire, label ot.Label) (bool, error) { switch { case label.Equal(wire.L0): '
               'return false, nil case label.Equal(wire.L1): return true, nil default: return false, '
               'fmt.Errorf("unknown label %s for wire %v", label, wire) } }')
    st = vlib.strip_go_comments(vlib.repo_file("compiler/ssa/streamer.go"))
    ctx.advise("streaming garbler result loop: Equal(L0)/Equal(L1)/else error (source text)",
               bool(re.search(r"if label\.Equal\(wire\.L0\) \{\s*bit = 0\s*\} else if label\.Equal\(wire\.L1\) \{\s*bit = 1\s*\} "
                              r"else \{\s*return nil, nil, fmt\.Errorf\(\"unknown label", st)), True)
    ctx.advise("streaming garbler result loop: one ReceiveLabel per result bit, prog.Outputs.Size() iterations (source text)",
               bool(re.search(r"for i := 0; i < prog\.Outputs\.Size\(\); i\+\+ \{\s*err := conn\.ReceiveLabel\(&label, &labelData\)", st)),
               True)
    ev = vlib.strip_go_comments(vlib.repo_file("circuit/eval.go"))
    ctx.advise("Eval checks table row lengths (source text)",
               {"and_len": len(re.findall(r"len\(row\) != 2", ev)) >= 1, "index_bound": len(re.findall(r"index >= len\(row\)", ev)) >= 1},
               {"and_len": True, "index_bound": True})
    quick = ctx.tier == "quick"
    if ctx.build_hx():
        replay_exact(ctx)
        ops, out, meta = ctx.run_hx("decide", 300 if quick else 6000, timeout=1500)
        ctx.absorb_meta(meta, prefix="decide_")
        ctx.correspond("garbler result loop on scripted returned labels (honest/garbage/bitflip/other-label)", ops, out)
        for line in open(ops, errors="replace"):
            ctx.distinct.add(hashlib.sha1(line.encode()).digest())
        # the real STREAMING garbler against a scripted streaming evaluator (chosen number of chosen labels) vs Lean streamResult
        ops, out, meta = ctx.run_hx("sdecide", 300 if quick else 4000, timeout=1500)
        ctx.absorb_meta(meta, prefix="sdecide_")
        ctx.correspond("streaming garbler result loop on a scripted result message (short / exact / long label count; "
                       "honest/other-label/bitflip/garbage/zero labels)", ops, out)
        for line in open(ops, errors="replace"):
            ctx.distinct.add(hashlib.sha1(line.encode()).digest())
        c = ctx.coverage.get("counters", {})
        ctx.oblige("scripted streaming evaluator: the result message is the OpResult word + Outputs.Size labels of 16 bytes "
                   "(otherwise the label count cannot be scripted) and short, exact and long counts were all exercised",
                   c.get("sdecide_format_unexpected", 0) == 0 and min(c.get("sdecide_count_short", 0),
                   c.get("sdecide_count_exact", 0), c.get("sdecide_count_long", 0)) > 0,
                   {k: v for k, v in c.items() if k.startswith("sdecide_")})
        ops, out, meta = ctx.run_hx("faults", 2500 if quick else 0, timeout=3000)
        ctx.absorb_meta(meta, prefix="faults_")
        nf = 0
        for line in open(ops, errors="replace"):
            ctx.distinct.add(hashlib.sha1(line.encode()).digest())
            nf += 1
        ctx.evaluations += nf
        c = ctx.coverage.get("counters", {})
        regions = sorted(k[len("faults_region_"):] for k in c if k.startswith("faults_region_"))
        ctx.oblige("fault enumeration reached all message kinds of whole-circuit sessions (key, tables, input labels, OT both "
                   "ways, output labels; at most one of the 7 missed by the quick sample) and all 8 parts of both directions of "
                   "streaming sessions (key, program description, input labels, OT, instructions; OT, result framing, result labels)",
                   nf > 0 and all(r in regions for r in STREAM_REGIONS) and sum(r in regions for r in WHOLE_REGIONS) >= 6,
                   "regions: %s" % regions)
        ctx.oblige("streaming sessions: both byte streams of every baseline session were parsed field by field (layout located) "
                   "and every kind of LENGTH / COUNT / WIDTH field got shrinking and growing faults",
                   c.get("faults_stream_layout_failed", 0) == 0 and c.get("faults_stream_layout_ok", 0) >= 14 and
                   all(c.get("faults_length_field_cases_" + k, 0) > 0 for k in LENGTH_KINDS) and
                   c.get("faults_result_framing_cases", 0) > 0,
                   "%s %s" % (meta.get("stream_layout_error", ""),
                              {k: v for k, v in c.items() if k.startswith("faults_length_field") or
                               k.startswith("faults_stream_") or k == "faults_result_framing_cases"}))
        ctx.oblige("streaming sessions: every output bit position of every session program carries a 1 in some session "
                   "(a truncated or shifted result is visibly wrong)",
                   c.get("faults_stream_output_bit_positions", 0) > 0 and c.get("faults_stream_output_bit_positions_never_1", 1) == 0,
                   {k: c.get(k) for k in ("faults_stream_output_bit_positions", "faults_stream_output_bit_positions_never_1",
                                          "faults_streaming_programs", "faults_streaming_sessions")})
        ctx.oblige("streaming sessions generated from the argument type grammar: every kind (scalar, struct of scalars, array, "
                   "slice, struct with array member, struct with slice member, nested struct, array of structs) is the "
                   "EVALUATOR's and the GARBLER's argument of some session, both description trees of every such session were "
                   "located, and every size word / member count / type digit of every node (members included) got faults",
                   c.get("faults_gram_layout_ok", 0) == len(GRAM_KINDS) and
                   all(c.get("faults_gram_kind_%s=%s" % (side, k), 0) > 0 for side in "GE" for k in GRAM_KINDS) and
                   c.get("faults_gram_evaluator_description_with_members", 0) >= 4 and
                   c.get("faults_gram_member_size_words", 0) >= 12 and
                   all(c.get("faults_gram_field_cases_" + k, 0) > 0 for k in ("bits", "ccount", "typedigit", "typelen", "namelen")),
                   {k: v for k, v in c.items() if k.startswith("faults_gram_")})
        ctx.coverage["exhaustive"] = not quick
        if ctx.widen:
            for s in range(ctx.seed + 7000, ctx.seed + 7003):
                ops, out, meta = ctx.run_hx("faults", 4000, seed=s, tag="-widen", timeout=2400)
                ctx.absorb_meta(meta, prefix="widen_")
                if ctx.fails:
                    break
    ctx.coverage["rule"] = ("decide: random circuits, each output label honest/other/bit-flipped/garbage/zero; sdecide: 7 streaming "
                            "programs, scripted result message with n-1 / fewer / 0 / n / n+1 / more labels, at most two of them not "
                            "honest; faults: quick = seeded sample of (session, direction, byte position, bit flip | byte set | "
                            "16-byte burst), thorough = every byte position of both directions of 8 whole-circuit sessions (CO, COT, "
                            "COT-malicious on the wire) and of the first session of each of 7 streaming programs (single ints, struct / "
                            "array / slice arguments on either side, 1-3 results incl. an array; 3 input sets per program, the later "
                            "ones chosen so that every output bit is 1 somewhere); plus in both tiers the targeted sets: result wire "
                            "ids, select-bit corners of every returned label, and every LENGTH / COUNT / WIDTH field of both "
                            "directions of the streaming sessions (located by parsing the recorded streams) changed to v-1, v/2, "
                            "v&(v-1), v+1, 2v, v|(v+1) (+ v-8, v+8, v-16, v+16, 0, v/4, 4v for widths and counts), every digit of every "
                            "type string to every other digit, every bit of the framing of the result message; plus 8 streaming "
                            "sessions per run whose programs are GENERATED from a type grammar (each party's argument one of scalar, "
                            "struct of scalars, array, slice, struct with array member, struct with slice member, nested struct, "
                            "array of structs; every kind on either side; widths, element counts and inputs from the seed; every "
                            "element / member non-zero; result = weighted sum of every element with its own odd weight, so a member "
                            "packed with another width or a dropped element changes the result): every size word, member count, "
                            "string length and type digit of EVERY node of both argument description trees gets the same targets; "
                            "distinct = distinct op lines")
    ctx.assumptions += [
        "authenticity of the garbling scheme under corruption (no transit corruption makes the evaluator produce label xor r) "
        "is proved SYMBOLICALLY (free hash, Dolev-Yao adversary limited to xor / hashing under any tweak / select bits / fresh labels: "
        "Props/C16Sym.lean, C16_symbolic_authenticity, C16_symbolic_no_wrong_result); the COMPUTATIONAL statement for the AES-based hash is "
        "cryptographic, outside Lean, and covered by fault enumeration on the real code",
        "streaming sessions take part in the fault enumeration (7 small programs x 3 input sets, CO on the wire); their session key "
        "comes from crypto/rand, so positions are reproducible but not the bytes",
        "the streaming argument description is not authenticated: a corruption that rewrites the evaluator's own argument record "
        "into another self-consistent description makes the evaluator choose other input bits; the reduction theorem does not "
        "cover this (C16_labels_of_other_input_accepted, C16_description_residual_witness; known finding "
        "C16-stream-argument-description-unauthenticated)",
    ]
    return ctx.finish(
        "Theorems: if the garbler's result loop succeeds on ARBITRARY received labels, each is one of the wire's two labels and "
        "a wrong value implies some label = honest label xor r (C16_wrong_imp_offset); unknown labels and wrong gate counts "
        "take error branches; in the symbolic free-hash model the other label of a wire is not derivable from the evaluator's view, so "
        "adversary-derivable output labels give an error or exactly the plain evaluation (C16_symbolic_no_wrong_result). "
        "Streaming: the result loop returns ok only after consuming exactly Outputs.Size labels, each one of its wire's two "
        "(C16_stream_result_count; a loop resolving len(block)/16 labels accepts a truncated result: C16_block_loop_accepts_short_block). "
        "Tie: real circuit.Garbler and real streaming garbler against scripted evaluators returning chosen (numbers of) labels vs the Lean "
        "decision logic; structural facts (single BitFromLabel path, row-length checks). Oracle: fault enumeration at byte "
        "positions of both directions of complete sessions, one child process per case; outcome must be "
        "error|stalled|crash|ok(correct).")

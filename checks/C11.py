"""C11 Connection layer (p2p.Conn) is a faithful, ordered, typed byte stream."""
import hashlib
import json
import os
import re
import sys

import vlib

sys.path.insert(0, os.path.dirname(os.path.abspath(__file__)))
from t1 import run_t1  # noqa: E402  (T1 leaf translator tie, checks/t1.py)

LEVEL = "proof"

THEOREMS = [
    "Mpc.C11_conn_send_inv",
    "Mpc.C11_conn_sched_indep",
    "Mpc.C11_conn_flush_hands_over",
    "Mpc.C11_conn_close_delivers",
    "Mpc.C11_conn_recv_from",
    "Mpc.C11_conn_recv",
    "Mpc.C11_conn_roundtrip",
    "Mpc.C11_conn_duplex",
    "Mpc.C11_conn_ring_refines",
    "Mpc.C11_conn_ring_send_inv",
    "Mpc.C11_conn_recv_eof_mid_value",
    "Mpc.C11_conn_fault_prefix",
    "Mpc.C11_conn_fault_reported",
    "Mpc.C11_conn_fault_free_ok",
    "Mpc.C11_old_writer_gap_witness",
    "Mpc.C11_conn_directions_independent",
    "Mpc.C11_conn_duplex_faults",
    "Mpc.C11_conn_duplex_faults_roundtrip",
    "Mpc.C11_closing_writer_couples_directions_witness",
    "Mpc.C11_sess_sides_are_local_runs",
    "Mpc.C11_be_roundtrip",
]

# the typed API the model covers (a new Send*/Receive* method must be modelled)
EXPECTED_METHODS = sorted([
    "SendByte", "SendUint16", "SendUint32", "SendData", "SendLabel", "SendString", "SendInputSizes",
    "ReceiveByte", "ReceiveUint16", "ReceiveUint32", "ReceiveData", "ReceiveLabel", "ReceiveString",
    "ReceiveInputSizes", "Receive",
])


def lean_const(src, name):
    m = re.search(r"^def %s : Nat := (\d+)" % name, src, flags=re.M)
    return int(m.group(1)) if m else None


def distinct_ops(ctx, ops):
    """distinct, non-trivial = distinct op lines with at least two sender
    operations of which at least one is a value."""
    for line in open(ops, errors="replace"):
        parts = line.split()
        if len(parts) == 5 and parts[4] != "-" and ";" in parts[4] and re.search(r"[bhwdslzZ]", parts[4]):
            ctx.distinct.add(hashlib.sha1(line.encode()).digest())
        # duplex / fault sessions: at least two steps of which one sends a value
        if len(parts) == 6 and parts[1] == "dx" and ";" in parts[5] and re.search(r"[AB]>[bhwdslzZ]", parts[5]):
            ctx.distinct.add(hashlib.sha1(line.encode()).digest())


def replay_exact(ctx):
    """`bin/check C11 --replay F`: when F holds one duplex / fault session (failure.replay = {mode: dx, op: <the op
    line>}), run exactly that script - same transport parameters, same steps in the same order - on the real p2p.Conn
    (harness mode dxreplay) and return the reproduced failure, else None."""
    if "--replay" not in sys.argv:
        return None
    try:
        rp = sys.argv[sys.argv.index("--replay") + 1]
        rp = rp if os.path.isabs(rp) else os.path.join(vlib.VERIF, rp)
        f = json.load(open(rp)).get("failure") or {}
    except Exception:
        return None
    if (f.get("replay") or {}).get("mode") != "dx":
        return None
    rc, log = vlib.sh([ctx.hx, "dxreplay", rp], env=vlib.GOENV, timeout=600)
    print("replayed session of %s (%s):\n%s" % (os.path.basename(rp), f.get("sig"), vlib.indent(log[-3000:])))
    if rc == 1:
        g = dict(f)
        g["found_by"] = "exact replay of " + os.path.basename(rp)
        return g
    return None


def run_dx(ctx, n, seed, tag="", prefix=""):
    ops, out, meta = ctx.run_hx("dx", n, seed=seed, tag=tag)
    ctx.absorb_meta(meta, prefix=prefix)
    ctx.correspond("duplex / fault sessions (both halves of two Conns over a buffering full-duplex transport; sends, "
                   "flushes, receives and closes of both sides in any order; Writes towards a closed peer fail at once "
                   "or after 1..3 accepted ones): what every call returned, Stats, Write calls, bytes accepted per "
                   "direction, transport closes, Read pattern (seed %d%s)" % (seed, tag), ops, out)
    distinct_ops(ctx, ops)


def run(ctx):
    ctx.prove("MpcVerif.Props.C11", THEOREMS)
    run_t1(ctx, ["C11"])          # p2p.Conn fixed-width encoders/decoders = Conn.beList / decodeList, reserve / ensure
    if ctx.tier == "thorough":
        ctx.leanchecker("MpcVerif.Props.C11")
    ctx.build_drv()

    model = open(vlib.LEAN + "/MpcVerif/Model/Conn.lean").read()

    n = 400 if ctx.tier == "quick" else 3000
    seeds = [ctx.seed] if ctx.tier == "quick" else [ctx.seed, ctx.seed + 1000, ctx.seed + 2000]
    if ctx.build_hx():
        # ---- --replay of one recorded duplex / fault session: exactly that session; a reproduced failure decides the run
        g = replay_exact(ctx)
        if g:
            ctx.fails.append(g)
            ctx.coverage["rule"] = "replay of one recorded duplex / fault session (the full check was not run)"
            return ctx.finish("Replay: the recorded session (transport parameters and the exact step sequence of both "
                              "endpoints) was re-run on the real p2p.Conn; the oracle fails again.")
        if "--replay" in sys.argv:
            print("no single recorded session to replay (or it no longer fails); running the full check")
        ops, out, meta = ctx.run_hx("sys", 0, seed=ctx.seed)
        ctx.absorb_meta(meta, prefix="sys_")
        # ---- structural facts the model assumes, taken from the COMPILED package (a fresh Conn and reflection in
        # the harness), never from source text: buffer sizes, the set of typed methods; numBuffers is behavioural
        # (number of distinct buffer identities the transport sees, checked after the random sessions below)
        facts = meta.get("facts") or {}
        ctx.fact("len(Conn.WriteBuf), len(Conn.ReadBuf) of a fresh Conn = model writeBufSize, readBufSize",
                 [facts.get("write_buf_len"), facts.get("read_buf_len")],
                 [lean_const(model, "writeBufSize"), lean_const(model, "readBufSize")])
        ctx.fact("exported Send*/Receive* methods of *p2p.Conn (reflection) = the modelled set",
                 facts.get("send_recv_methods"), EXPECTED_METHODS)
        ctx.correspond("systematic buffer-boundary sessions and streams that end inside a value", ops, out)
        distinct_ops(ctx, ops)
        # writer-goroutine error path: failing / short transport Writes
        nf = 200 if ctx.tier == "quick" else 2500
        for s in seeds:
            ops, out, meta = ctx.run_hx("fault", nf, seed=s)
            ctx.absorb_meta(meta)
            ctx.correspond("fault sessions (failing / short Write at every chunk boundary, sticky and transient): "
                           "bytes written per Write, results of operations and Close, Stats (seed %d)" % s, ops, out)
            distinct_ops(ctx, ops)
        for s in seeds:
            ops, out, meta = ctx.run_hx("conn", n, seed=s)
            ctx.absorb_meta(meta)
            ctx.correspond("random duplex sessions: Write chunk lengths, wire digest, Stats, received values, "
                           "Read pattern, unread rest (seed %d)" % s, ops, out)
            distinct_ops(ctx, ops)
        # both halves at once: duplex sessions with faults on either direction
        nd = 300 if ctx.tier == "quick" else 3000
        for s in seeds:
            run_dx(ctx, nd, s)
        if ctx.broken and not ctx.fails:
            # widened search for a concrete failing input (oracle only)
            for s in range(ctx.seed + 7000, ctx.seed + 7004):
                run_dx(ctx, 1500, s, tag="-widen", prefix="widen_")
                if ctx.fails:
                    break
                ops, out, meta = ctx.run_hx("conn", 1200, seed=s, tag="-widen")
                ctx.absorb_meta(meta, prefix="widen_")
                if ctx.fails:
                    break
        c = ctx.coverage.get("counters", {})
        need = ["plan_all", "plan_prefix", "plan_extra", "plan_reinterpret", "plan_lie",
                "frag_o", "frag_a", "frag_c", "frag_r", "chunk_full", "cases_pipe", "cases_frag_big",
                "payload_0", "payload_1", "payload_15..17", "payload_64Ki±", "payload_1Mi±",
                "payload_ge3Mi", "recv_err_eof", "ring_distinct_buffers_3", "val_b", "val_h", "val_w", "val_l", "val_z", "sys_cases_sys",
                "fault_hit_sticky", "fault_hit_transient", "fault_reported_by_op", "fault_reported_by_close_only",
                "fault_short_0", "fault_short_partial", "fault_error_after_full_write", "fault_not_reached",
                "sys_cases_eof", "sys_eof_mid_b", "sys_eof_mid_h", "sys_eof_mid_w", "sys_eof_mid_l", "sys_eof_mid_d",
                "sys_eof_mid_s", "sys_eof_mid_z",
                "sys_cases_rdend", "sys_rdend_value_straddles_buffer_end", "sys_rdend_second_buffer", "sys_frag_p",
                "cases_dx_sys", "cases_dx_rand", "dx_write_failed", "dx_write_accepted_after_peer_close",
                "dx_send_error", "dx_close_error", "dx_recv_value_after_send_fault", "dx_recv_expect_value",
                "dx_recv_expect_eof", "dx_recv_expect_wb"]
        ring = sorted(int(k.rsplit("_", 1)[1]) for k in c if k.startswith("ring_distinct_buffers_"))
        ctx.fact("largest number of distinct write buffers seen by the transport = model numBuffers",
                 ring[-1] if ring else None, lean_const(model, "numBuffers"))
        missing = [k for k in need if not c.get(k)]
        ctx.oblige("generator reached every plan / fragmentation kind / payload size class / value kind",
                   not missing, "not reached: %s" % missing)
    ctx.coverage["rule"] = (
        "duplex sessions over a recording transport: per direction 0..1700 operations (7 value kinds, Flush, "
        "NeedSpace), payload sizes biased to 0, 1, 15..17, write-buffer-exact, 65531..65537, 131071..131073, "
        "2^20-5..2^20+4, 2 MiB +-1, 3 MiB; read fragmentation one-byte / whole-buffer / cycles over boundary sizes / "
        "hashed 1..max; receive plans all / prefix / extra (EOF) / reinterpret / lying length prefix; 1 in 8 cases "
        "over the real p2p.Pipe in flush-acknowledge rounds; plus the systematic boundary enumeration (value of "
        "every kind ending delta in {0..20} bytes around the 64 KiB write buffer / 1 MiB read buffer end) and the "
        "enumeration of streams that end inside a value (every kind, every cut of the fixed-width values and of the "
        "length prefix, body cuts at 1 byte / 64 KiB / 1 MiB / last byte) and the read-buffer-end enumeration planned "
        "by case index (len(ReadBuf) measured on a live Conn; one transport read that was offered the whole free buffer "
        "stops d = 1..20 bytes before its end, after 0..3 misaligning bytes and a data value served from the window "
        "that leaves r = 1..width-1 bytes of the next value - byte, uint16, uint32, label, length header of data / "
        "string / size list - so that it straddles the stop and, when width > d + r, the buffer end; then reads of 1 "
        "byte / exactly d bytes / the rest; the same in the second buffer after a filler of exactly len(ReadBuf) bytes; "
        "thorough: full product, quick: the third (case + seed) mod 3 with r rotating); fault sessions: the N-th transport Write "
        "(N = every chunk boundary of a fixed script and 0..7 on random scripts) fails after 0 / 1 / few / 65535 / "
        "65536 / all bytes, sticky or transient, with the failing Write held until the next chunk is queued so that "
        "the asynchronous error report is reproducible; duplex / fault sessions: two Conns over a full-duplex "
        "buffering transport (two independent byte queues, data written before a close stays readable, Writes towards "
        "a closed endpoint fail at once or after 1..3 accepted-and-discarded ones), one script of steps of both "
        "sides in any order (typed sends of every kind incl. payloads above 64 KiB while no Write can fail, Flush, "
        "NeedSpace, typed receives of what has arrived, end-of-stream and would-block probes, Close at any point): "
        "all interleavings of [peer sends, peer closes] with [local sends + flushes, local receives] x 3 send "
        "variants x grace 0/1/2 x both roles, plus random interleavings. "
        "distinct = distinct op lines with >= 2 sender operations including a value")
    ctx.assumptions += [
        "Go channels are FIFO; conn.Write is modelled as reading the queued buffer atomically (the physical-ring model "
        "Ring + theorem C11_conn_ring_refines show that the sender never writes into a queued or free buffer; the "
        "harness checks on every Write that the buffer is not modified while the Write is in progress and compares the "
        "sequence of buffer identities with the ring model)",
        "values outside the typed domain (u16 >= 2^16, u32 >= 2^32, payloads >= 4 GiB) are truncated by the Go code; "
        "the theorems carry the explicit hypothesis Val.Valid",
        "a transport Read returns at least one byte or an error (a (0, nil) Read makes Fill spin; excluded)",
        "transport faults: a Write that writes short returns an error (io.Writer contract); the unsynchronised read of "
        "writerErr in Flush is modelled as sequentially consistent (every schedule of the writer goroutine is "
        "quantified over, so a stale read is a later schedule); the caller stops at its first error and calls Close",
        "C11_conn_fault_prefix holds for every fault pattern since /repo f07ee15 (writer goroutine stops writing after a "
        "failed Write); the behaviour before the fix is kept as C11_old_writer_gap_witness on FSender.writerStepOld",
        "the send half and the receive half of a Conn share no state except the transport c.conn itself (Stats "
        "counters are separate atomics); Local (Model/ConnDuplex.lean) models that shared endpoint explicitly and "
        "C11_conn_directions_independent / the duplex-fault correspondence check that no send-side event reaches it",
        "duplex / fault sessions are sequential scripts: between two steps every writer goroutine has finished what was "
        "queued (the harness waits until it is parked), and a Write is held until the Flush that queued it has "
        "returned; operations that flush more than once are only generated while no Write can fail; after a failed "
        "typed receive no further receive of that side is modelled",
    ]
    return ctx.finish(
        "Theorems (Props/C11.lean) over the executable model Model/Conn.lean: for every operation list, every writer "
        "schedule and any number of extra writer iterations, wire ++ queued ++ current buffer = encoding of the "
        "operations so far, counters = bytes/chunks handed over, chunks are 1..65536 bytes and independent of the "
        "schedule; the model with the three physical buffers and aliasing made explicit refines the value-level "
        "model (ownership invariant: current / queued / free buffers pairwise distinct); Close delivers everything; for every value list, every fragmentation oracle and every trailing "
        "rest the matching typed receives return exactly the values, leave exactly the rest and Recvd = bytes taken "
        "from the transport; composition (round trip, both directions); a stream that ends inside a value gives the "
        "complete values and then the end-of-stream error, never a partial value; with failing / short transport "
        "Writes (any fault pattern, transient or permanent) the wire stays a prefix of the sent stream, success of all operations "
        "and Close implies full delivery on every transport, an error once reported stays reported; a whole endpoint (both halves + the transport "
        "endpoint they share) in sessions where local sends under any faults, writer iterations, receives, the peer's "
        "bytes in any chunking and the peer's close interleave in any order: the receive direction (values, errors, "
        "Stats.Recvd, window) is independent of the send direction, every value the transport accepted from the peer is "
        "received in order followed by the end of the stream, with the witness that a writer closing the transport on a "
        "Write error breaks exactly this; the two-endpoint session model run by the driver is two such sessions. Tie: the same Lean definitions are executed "
        "by drv_c11 on the op lines the harness ran on the real p2p.Conn (harness transport with seeded "
        "fragmentation, and the real p2p.Pipe) and every observable is compared. Oracle on the real code: received "
        "= sent, wire bytes = reference encoding, Stats = bytes moved, rest = encoding of unreceived values, no "
        "buffer mutation during Write, no error/panic/hang (progress-based watchdog); under faults: wire is a prefix "
        "of the reference encoding, a failed Write is reported by an operation or by Close, success means full "
        "delivery; EOF inside a value gives io.EOF after exactly the complete values; in duplex / fault sessions a value the "
        "transport accepted from the peer is received unchanged and in order whatever happened to the local sends, then "
        "io.EOF after the peer's close, accepted bytes are a prefix of the sent stream (all of it when everything "
        "returned nil), a failed Write is reported, Recvd = bytes read.")

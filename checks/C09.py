"""C09 Compiler options and targets never change a program's meaning.

Translation validation with a checker proved sound in Lean
(`Mpc.checkRefines`, theorem `C09_checker_sound`) for the optimisation passes
(ConstPropagate, ShortCircuitXORZero, Prune, Compile's renumbering and level
sort); bit-parallel simulation (tested, not proved) for configuration pairs
that change the algorithm (multiplier threshold, Yao vs GMW builders).
"""
import hashlib
import json
import os
import re
import sys

import vlib

LEVEL = "proof"

THEOREMS = [
    "Mpc.absOp_sound",
    "Mpc.ssa_sem",
    "Mpc.passGates_inv",
    "Mpc.checkRefines_sound",
    "Mpc.perm_eval",
    "Mpc.sort_topological",
    "Mpc.C09_checker_sound",
    "Mpc.C09_checker_wf",
    "Mpc.C09_options_preserve_meaning_partial",
    "Mpc.C09_absRun_ssa",
    "Mpc.C09_perm_eval",
    "Mpc.C09_sort_topological",
    "Mpc.C09_levels",
    "Mpc.C09_assignLevels_mono",
    "Mpc.C09_levels_yao",
    "Mpc.C09_gmw_schedule",
    "Mpc.C09_target_equivalence_fails",
    "Mpc.Graph.compute_eq_of_sols",
    "Mpc.C09_constPropagate_preserves",
    "Mpc.C09_prune_preserves",
    "Mpc.C09_shortCircuit_preserves",
    "Mpc.C09_compile_preserves_partial",
    "Mpc.C09_wf_checkers_sound",
    "Mpc.C09_pipeline_preserves",
    "Mpc.sol_unique",
    "Mpc.Graph.gwfCheck_sound",
    # where the level model (Nat) meets the code (fixed-width Gate.Level): side condition, and the failure beyond it
    "Mpc.wrapLv_id",
    "Mpc.invChain_ssa",
    "Mpc.invChain_strict",
    "Mpc.wrapped_sort_not_wf",
    "Mpc.wrapped_sort_wrong_output",
    "Mpc.C09_levels_bounded",
    "Mpc.C09_wrapped_levels_not_topological",
    "Mpc.C09_wrapped_levels_wrong_output",
    "Mpc.C09_computeArr_eq",
]


def norm(s):
    return re.sub(r"\s+", " ", s or "").strip()


def facts(ctx):
    """T2: code-shape facts the models assume.

    Semantic (obligation): the pass sequence of CompileCircuit, extracted as a
    call sequence (same-package helpers inlined, receivers by type), not as
    text.  Everything else is ADVISORY: its semantic content is decided by a
    correspondence or oracle of this check (named in each advisory); a drift
    only widens the search."""
    seq = ctx.callseq("compiler/ssa", "Program.CompileCircuit",
                      methods=["ConstPropagate", "ShortCircuitXORZero", "Prune", "Compile"])
    got = [x.split(".")[-1] for x in seq] if isinstance(seq, list) else seq
    ctx.fact("pass sequence of CompileCircuit (call sequence)", got,
             ["ConstPropagate", "ShortCircuitXORZero", "Prune", "Compile"])
    body = vlib.go_func_body("compiler/ssa/circuitgen.go", r"\(prog \*Program\) CompileCircuit") or ""
    m = re.search(r"if params\.OptPruneGates \{(.*?)\n\t\}", body, flags=re.S)
    ctx.advise("Prune is the only pass guarded by OptPruneGates [decided by: hand-replayed pipeline = CompileCircuit "
               "gate for gate, prune off and on]",
               bool(m) and "cc.Prune()" in m.group(1) and "ConstPropagate" not in m.group(1), True)
    comp = vlib.go_func_body("compiler/circuits/compiler.go", r"\(cc \*Compiler\) Compile\(") or ""
    m = re.search(r"if cc\.Params\.Target == utils\.TargetGMW \{\s*sort\.SliceStable\(cc\.assigned, func\(i, j int\) bool \{(.*?)\}\)\s*\}",
                  comp, flags=re.S)
    ctx.advise("Compile's level sort (GMW target): comparator text [decided by: compile-gmw pass-model tie, oracle "
               "c09-compile-order-not-sorted]", norm(m.group(1)) if m else None,
               "gi := cc.assigned[i] gj := cc.assigned[j] if gi.Level != gj.Level { return gi.Level < gj.Level } "
               "return gi.Op == circuit.AND && gj.Op != circuit.AND")
    gates = vlib.repo_file("compiler/circuits/gates.go")
    ctx.advise("Gate.Assign gives the output wire level Level+1 [decided by: oracle c09-compile-levels-not-strict on "
               "every compiled circuit, compile pass-model tie]",
               "g.O.Assign(cc, g.Level+1)" in gates, True)
    m = re.search(r"type Gate struct \{(.*?)\n\}", vlib.strip_go_comments(gates), flags=re.S)
    lt = re.search(r"\bLevel\s+(\w+)", m.group(1)) if m else None
    ctx.advise("circuits.Gate.Level is declared `int` (model: unbounded Nat; the theorems transfer while no level reaches the "
               "field's range, C09_levels_bounded; beyond it the sort is not topological, "
               "C09_wrapped_levels_not_topological) [decided by: extreme-shape programs whose circuits are deeper than 2^16 / "
               "2^17 levels - simulation oracle, `topo` ops (absRun on the real compiled circuit), level oracle "
               "c09-compile-levels-not-strict]", lt.group(1) if lt else None, "int")
    wire = vlib.repo_file("compiler/circuits/wire.go")
    m = re.search(r"\bnumMask\s*=\s*0b([01]+)", wire)
    ctx.advise("Wire fan-out counter: numMask has 29 one bits and SetNumOutputs panics above it (model: unbounded Nat) "
               "[decided by: extreme-shape programs with a wire read by more than 2^16 / 2^17 gates - compile outcome, "
               "prune pass-model ties, simulation oracle]",
               [m.group(1).count("1") if m else None, 'panic("too big circuit, wire outputs overflow")' in wire], [29, True])
    nw = vlib.repo_file("gmw/network.go")
    m = re.search(r"for i := 0; i < numLevels; i\+\+ \{(.*?)\n\t\}\n", nw, flags=re.S)
    sched = m.group(1) if m else ""
    ctx.advise("gmw.Network.Run schedule text: per level the non-AND gates, then the AND batch [the real GMW run is "
               "tied by C10; here the schedule theorem is exercised on a replica, op `sort g`]",
               [sched.find("range rest[i]") >= 0, 0 <= sched.find("range rest[i]") < sched.find("andBatchFlush(ands[i])")],
               [True, True])
    mul = vlib.go_func_body("compiler/circuits/circ_multiplier.go", r"NewMultiplier\(") or ""
    ctx.advise("NewMultiplier dispatch text (GMW: Wallace; Yao: Karatsuba, threshold table when < 8) [decided by: "
               "simulation oracle over thresholds and targets]",
               ["c.Params.Target == utils.TargetGMW" in mul and "NewWallaceMultiplier" in mul,
                "arrayTreshold < 8" in mul, "NewKaratsubaMultiplier(c, arrayTreshold" in mul], [True, True, True])
    div = vlib.go_func_body("compiler/circuits/circ_divider.go", r"NewUDivider\(") or ""
    ctx.advise("NewUDivider dispatch text (GMW: Goldschmidt; Yao: long division) [decided by: simulation oracle over "
               "targets]", ["NewUDividerGoldschmidtFast" in div, "NewUDividerLong" in div], [True, True])


def pair_results(ctx, ops, out, meta, label):
    """Tally the proved checker's verdicts (from the model output) and tie the
    Lean evaluation model to Circuit.Compute on the sampled inputs."""
    model = ops + ".model"
    res = []
    pairs = list(meta.get("pairs") or [])
    pi = 0
    try:
        fo, fm = open(ops, errors="replace"), open(model, errors="replace")
    except OSError:
        return res
    for op in fo:
        b = fm.readline().rstrip("\n")
        parts = op.split(" ", 3)
        if len(parts) < 3 or parts[1] != "pair":
            continue
        info = pairs[pi] if pi < len(pairs) else {}
        pi += 1
        if info.get("witness"):
            # executed witness (cross-target pair): Lean model outputs, not a checker pair
            f = dict(x.split("=", 1) for x in b.split(";") if "=" in x)
            ctx.coverage["former_inexact_witness_executed"] = {
                "what": "uint7 a/b, a%b on a=127, b=13 (differed before 776d360): real Yao and GMW circuits evaluated by "
                        "the compiled Lean model",
                "lean_model_yao": f.get("c"), "lean_model_gmw": f.get("c2"), "differ": f.get("c") != f.get("c2")}
            continue
        verdict = b.split(";", 1)[0].replace("chk=", "")
        res.append((parts[2], verdict, info))
        if info.get("gates2", 0) > 0 and info.get("gates") != info.get("gates2"):
            ctx.distinct.add(hashlib.sha1(op.encode()).digest())
    fo.close()
    fm.close()
    return res


BUILDER_THEOREMS = ["Mpc." + n for n in [
    "C09_add_target_equiv", "C09_sub_target_equiv", "C09_mul_threshold_irrelevant", "C09_mul_karatsuba_eq_array",
    "C09_mul_target_equiv", "C09_mul_target_equiv_bits", "C09_hamming_target_equiv",
    "C09_udiv_long_target_equiv", "C09_umod_long_target_equiv"]]


def strip_chk(line):
    return re.sub(r"^chk=[^;]*;", "", line)


def replay_exact(ctx):
    """`bin/check C09 --replay F`: when F holds one concrete case (program source, two configurations, input
    vector) run exactly that case on the real code first: both configurations compiled by the real compiler,
    both circuits evaluated by Circuit.Compute on the recorded input.  The seeded run that regenerates the
    case follows."""
    if "--replay" not in sys.argv or not ctx.hx:
        return
    try:
        rp = sys.argv[sys.argv.index("--replay") + 1]
        rp = rp if os.path.isabs(rp) else os.path.join(vlib.VERIF, rp)
        f = json.load(open(rp)).get("failure") or {}
    except Exception:
        return
    if not (f.get("src") and f.get("config_b")):
        return
    rc, log = vlib.sh([ctx.hx, "replay", rp], env=vlib.GOENV, timeout=900)
    print("replayed case of %s (%s, %s vs %s):\n%s" % (os.path.basename(rp), f.get("sig"), f.get("config_a"),
                                                       f.get("config_b"), vlib.indent(log[-2500:])))
    ctx.coverage["exact_replay"] = {"file": os.path.basename(rp), "sig": f.get("sig"), "reproduced": rc == 1}
    if rc == 1:
        g = dict(f)
        g["found_by"] = "exact replay of " + os.path.basename(rp)
        ctx.fails.append(g)


XDIMS_QUICK = ["depth_gmw_ge_2^16", "depth_yao_ge_2^16", "width_ge_2^16", "fanout_ge_2^16", "wires_ge_2^16", "wires_ge_2^17"]
XDIMS_THOROUGH = XDIMS_QUICK + ["depth_gmw_ge_2^17", "depth_yao_ge_2^17", "width_ge_2^17", "fanout_ge_2^17", "gates_ge_2^20"]


def extreme(ctx, stats, tally):
    """Extreme-shape programs (harness/cmd/c09/extreme.go): the boundaries of the program quantifier set by the
    widths of the compiler's counters (gate levels, wires, gates per level, fan-out)."""
    ops, out, meta = ctx.run_hx("extreme", 0, seed=ctx.seed)
    ctx.absorb_meta(meta, prefix="x_")
    ctx.correspond("extreme-shape programs (deeper than 2^16 levels, wider than 2^16 gates per level, fan-out above 2^16): "
                   "topo (absRun on the real compiled circuits), pass models, checker pairs, level sorts incl. the "
                   "16-bit-field sort, chain witnesses k=1..12: Lean model = real code", ops, out, canon=strip_chk)
    tally(ops, out, meta, "x%d" % ctx.seed)
    c = ctx.coverage.get("counters", {})
    progs = meta.get("extreme") or []
    ctx.coverage["extreme_programs"] = progs
    ctx.coverage["extreme_max_compile_level"] = {"gmw": c.get("x_max_compile_level_gmw"), "yao": c.get("x_max_compile_level_yao")}
    want = 4 if ctx.tier == "quick" else 15
    ctx.oblige("extreme-shape generator: every class calibrated against the compiler under test and compiled under every "
               "configuration (%d programs)" % c.get("x_extreme_programs", 0),
               c.get("x_extreme_programs", 0) >= want and not c.get("x_extreme_class_not_calibrated") and
               not c.get("x_compile_fail_extreme") and c.get("x_programs_extreme", 0) == c.get("x_extreme_programs", 0),
               "programs=%s not_calibrated=%s compile_fail=%s ran=%s" % (
                   c.get("x_extreme_programs"), c.get("x_extreme_class_not_calibrated"), c.get("x_compile_fail_extreme"),
                   c.get("x_programs_extreme")))
    dims = XDIMS_QUICK if ctx.tier == "quick" else XDIMS_THOROUGH
    missing = [d for d in dims if not c.get("x_extreme_" + d)]
    ctx.oblige("extreme-shape programs crossed every boundary (measured on the compiled circuits in unbounded arithmetic): %s"
               % ", ".join(dims), not missing, "not reached: %s" % missing)
    ctx.oblige("the proved checker absRun was run on real GMW-target circuits of extreme-shape programs (%d topo ops on GMW "
               "circuits) and Compile's own levels were read back and checked strict / sorted (%d GMW, %d Yao circuits)"
               % (c.get("x_topo_ops_gmw", 0), c.get("x_levels_checked_gmw", 0), c.get("x_levels_checked_yao", 0)),
               c.get("x_topo_ops_gmw", 0) >= 4 and c.get("x_levels_checked_gmw", 0) >= 3, "")
    ctx.oblige("chain witnesses of C09_wrapped_levels_not_topological / _wrong_output executed for k = 1..12 (Compile's "
               "comparator under sort.SliceStable on a k-bit level field, Circuit.Compute; compiled Lean model): not "
               "topological and wrong output every time",
               c.get("x_chain_ops", 0) == 12 and c.get("x_chain_ops_not_topological_and_wrong", 0) == 12,
               "chain_ops=%s wrong=%s" % (c.get("x_chain_ops"), c.get("x_chain_ops_not_topological_and_wrong")))
    ctx.oblige("a 16-bit level field is predicted (Lean compileSortW 16 = Go replica) to break a real compiled program deeper "
               "than 2^16 levels",
               c.get("x_sort_ops_wrapped_beyond_field", 0) >= 1 and
               c.get("x_sort_ops_wrapped_beyond_field_not_topological", 0) == c.get("x_sort_ops_wrapped_beyond_field", 0),
               "beyond=%s not_topological=%s" % (c.get("x_sort_ops_wrapped_beyond_field"),
                                                 c.get("x_sort_ops_wrapped_beyond_field_not_topological")))
    if ctx.widen:
        # widened search among extreme shapes: other seeds give other classes parameters
        for s in range(ctx.seed + 9000, ctx.seed + 9003):
            ops, out, meta = ctx.run_hx("extreme", 0, seed=s, tag="-widen")
            ctx.absorb_meta(meta, prefix="xwiden_")
            if ctx.fails:
                break


DIV_CLASSES = ["dividend_all_ones", "dividend_all_ones_minus_1", "dividend_top_bit", "dividend_top_bit_plus_1",
               "dividend_top_bit_minus_1", "dividend_random_top_bit_set", "dividend_ones_above_cut", "dividend_random_length",
               "divisor_small_1_4096", "divisor_pow2", "divisor_pow2_minus_1", "divisor_pow2_plus_1", "divisor_run_of_ones",
               "divisor_close_to_top", "divisor_random_length", "divisor_close_to_dividend"]


def divsweep(ctx, stats, tally):
    """Division sweep (harness/cmd/c09/divsweep.go): programs that divide at 16..64 bits, structured division
    operands, the estimate hypothesis of C09_program_target_equiv_div evaluated on the real compiled programs."""
    ops, out, meta = ctx.run_hx("divs", 0, seed=ctx.seed)
    ctx.absorb_meta(meta, prefix="d_")
    ctx.correspond("division sweep: meaning (ssaEval of the program form, Model/SsaDiv.lean) of every structured operand pair "
                   "= outputs of the real GMW-target circuit; topo / pass / pair / sort ops of the sweep programs: Lean "
                   "model = real code", ops, out, canon=strip_chk)
    tally(ops, out, meta, "d%d" % ctx.seed)
    c = ctx.coverage.get("counters", {})
    ctx.coverage["division_sweep_programs"] = meta.get("div_programs")
    want = 8 if ctx.tier == "quick" else 14
    widths = [w for w in (16, 24, 32, 48, 64) if c.get("d_div_width_%d" % w)]
    ctx.oblige("division sweep: %d programs compiled under {Yao, GMW} x {prune off, on}, the widths 16, 24, 32, 48, 64 all "
               "present, no configuration left out of the simulation for its size" % c.get("d_div_programs", 0),
               c.get("d_div_programs", 0) >= want and widths == [16, 24, 32, 48, 64] and not c.get("d_compile_fail_div") and
               c.get("d_programs_div", 0) == c.get("d_div_programs", 0) and not c.get("d_config_skipped_too_big") and
               not c.get("d_skipped_too_big_div") and
               c.get("d_div_programs_structured", 0) == c.get("d_div_programs", 0) + c.get("d_programs_divgen", 0),
               "programs=%s widths=%s compile_fail=%s ran=%s config_skipped_too_big=%s structured=%s" % (
                   c.get("d_div_programs"), widths, c.get("d_compile_fail_div"), c.get("d_programs_div"),
                   c.get("d_config_skipped_too_big"), c.get("d_div_programs_structured")))
    ctx.oblige("division sweep: generated programs with division at widths that are not enumerated (statements, if / else, "
               "loops, division results feeding other operators; %d compiled)" % c.get("d_programs_divgen", 0),
               c.get("d_programs_divgen", 0) >= (1 if ctx.tier == "quick" else 4) and not c.get("d_skipped_too_big_divgen"),
               "compiled=%s compile_fail=%s skipped=%s" % (c.get("d_programs_divgen"), c.get("d_compile_fail_divgen"),
                                                         c.get("d_skipped_too_big_divgen")))
    missing = [k for k in DIV_CLASSES if not c.get("d_div_class_" + k)]
    ctx.oblige("structured division operands: every dividend / divisor class generated (%d operand pairs simulated on every "
               "configuration of the sweep programs)" % c.get("d_div_vectors", 0),
               not missing and c.get("d_div_vectors", 0) >= 100000, "missing classes: %s vectors=%s" % (missing, c.get("d_div_vectors")))
    ev, hold = c.get("d_div_hypothesis_instances_evaluated", 0), c.get("d_div_hypothesis_instances_hold", 0)
    ctx.coverage["estimate_hypothesis"] = {
        "theorem": "Mpc.C09_program_target_equiv_div (hypothesis hest: EstOn goldEstimate on divInstancesOf)",
        "divider_instances_evaluated": ev, "hold": hold, "meaning_vectors": c.get("d_div_meaning_vectors", 0),
        "wrong_outputs_gmw": c.get("d_div_meaning_wrong_gmw", 0), "wrong_outputs_yao": c.get("d_div_meaning_wrong_base", 0)}
    ctx.oblige("estimate hypothesis of C09_program_target_equiv_div (goldschmidt-estimate-within-one on the divider instances "
               "of the run) evaluated on the real compiled GMW circuits for the structured operand classes: %d of %d divider "
               "instances give the integer quotient / remainder (a wrong output refutes the hypothesis on that instance: "
               "C09_div_wrong_output_refutes_estimate)" % (hold, ev),
               ev >= 100000 and hold == ev and not c.get("d_div_meaning_wrong_base"),
               "evaluated=%s hold=%s wrong_gmw_vectors=%s wrong_yao_vectors=%s (the first failing input of each program is an "
               "oracle failure c09-div-estimate-not-within-one / c09-div-meaning)" % (
                   ev, hold, c.get("d_div_meaning_wrong_gmw"), c.get("d_div_meaning_wrong_base")))
    ctx.oblige("division sweep: `div` op lines (Lean meaning and divider instances vs the real GMW circuit) emitted for every "
               "sweep program (%d ops, %d operand pairs)" % (c.get("d_div_ops", 0), c.get("d_div_op_vectors", 0)),
               c.get("d_div_ops", 0) == c.get("d_div_programs", 0) > 0, "")
    if ctx.widen:
        # widened search: other seeds give other widths / forms / random operands
        for s in range(ctx.seed + 11000, ctx.seed + 11002):
            ops, out, meta = ctx.run_hx("divs", 0, seed=s, tag="-widen")
            ctx.absorb_meta(meta, prefix="dwiden_")
            if ctx.fails:
                break


def run(ctx):
    ctx.prove("MpcVerif.Props.C09", THEOREMS)
    # operator level of the threshold / target axes: corollaries of the C07 exactness theorems, every width and value
    ctx.prove("MpcVerif.Props.C09Builders", BUILDER_THEOREMS)
    # program level of the target axis: corollary of the C03 back-end theorem (both targets compute ssaEval)
    # ... and for programs that DIVIDE: under the estimate hypothesis on the divider instances of the run
    ctx.prove("MpcVerif.Props.C09Programs", ["Mpc.C09_program_target_equiv", "Mpc.C09_program_both_targets_compute_meaning",
                                             "Mpc.C09_program_target_equiv_div_est", "Mpc.C09_program_target_equiv_div",
                                             "Mpc.C09_program_div_both_targets_compute_meaning",
                                             "Mpc.C09_div_wrong_output_refutes_estimate_est",
                                             "Mpc.C09_div_wrong_output_refutes_estimate",
                                             "Mpc.exDiv2_zeroEstimator_wrong",
                                             "Mpc.SsaC.goldschmidt_eq_dividerPad", "Mpc.SsaC.ssaCircuitEvalE_gold",
                                             "Mpc.SsaC.EstOn_exact", "Mpc.SsaC.dividerPad_spec", "Mpc.SsaC.compileOpE_sound",
                                             "Mpc.SsaC.compileStepsE_sound", "Mpc.SsaC.ssaCompileE_sound",
                                             "Mpc.SsaC.ssaCircuitEvalE_correct"])
    if ctx.tier == "thorough":
        ctx.leanchecker("MpcVerif.Props.C09")
        ctx.leanchecker("MpcVerif.Props.C09Builders")
    ctx.build_drv()
    facts(ctx)
    n = 60 if ctx.tier == "quick" else 350
    seeds = [ctx.seed] if ctx.tier == "quick" else [ctx.seed, ctx.seed + 1000, ctx.seed + 2000]
    stats = {"pairs": 0, "validated": 0, "not_validated": 0, "corpus_pairs": 0, "corpus_validated": 0,
             "by_kind": {}, "not_validated_examples": []}
    if ctx.build_hx():
        replay_exact(ctx)

        def tally(ops, out, meta, s):
            for tag, verdict, info in pair_results(ctx, ops, out, meta, s):
                kind = tag.split("|")[-1]
                bk = stats["by_kind"].setdefault(kind, [0, 0])
                stats["pairs"] += 1
                bk[1] += 1
                if info.get("corpus"):
                    stats["corpus_pairs"] += 1
                if verdict == "ok":
                    stats["validated"] += 1
                    bk[0] += 1
                    if info.get("corpus"):
                        stats["corpus_validated"] += 1
                else:
                    stats["not_validated"] += 1
                    if len(stats["not_validated_examples"]) < 8:
                        stats["not_validated_examples"].append({"pair": tag, "verdict": verdict, "seed": s,
                                                                "case": info.get("case"), "corpus": info.get("corpus")})

        for k, s in enumerate(seeds):
            extra = [] if k == 0 else ["-extra", "nocorpus"]
            ops, out, meta = ctx.run_hx("equiv", n, seed=s, extra_args=extra)
            ctx.absorb_meta(meta)
            if meta.get("divider_probe_uint7"):
                ctx.coverage["divider_probe_uint7"] = meta["divider_probe_uint7"]
            if meta.get("negation_witness"):
                # the two circuits of Mpc.C09_target_equivalence_fails are what the compiler produces today?
                lean = open(os.path.join(vlib.LEAN, "MpcVerif/Props/C09.lean")).read()
                baked = re.findall(r"line format: `([^`]*)`", lean)
                nw = meta["negation_witness"]
                ctx.coverage["negation_witness"] = {
                    "program": nw.get("src"), "input": nw.get("x"), "compute_yao": nw.get("out_yao"),
                    "compute_gmw": nw.get("out_gmw"),
                    "lean_circuits_are_todays_compiler_output": baked == [nw.get("yao"), nw.get("gmw")]}
            ctx.correspond("pass models (ConstPropagate/ShortCircuitXORZero/Prune/Compile) + Compute/AssignLevels/level sorts: Lean model = real code (seed %d)" % s, ops, out,
                           canon=strip_chk)
            tally(ops, out, meta, s)
        # the division sweep runs before the extreme shapes: its failures are concrete operand pairs
        divsweep(ctx, stats, tally)
        extreme(ctx, stats, tally)
        c = ctx.coverage.get("counters", {})
        ctx.coverage["checker"] = stats
        ctx.coverage["programs"] = c.get("programs", 0)
        # Pairs the proved checker did not validate are covered by the
        # simulation only (harness oracle ran on every pair).  That is a
        # violation only if the simulation found a differing input (then it
        # is in ctx.fails).  It is a *broken tie* if it happens on the fixed
        # corpus, which the checker validates completely on the pinned tree,
        # or on a large share of the generated programs.
        ctx.oblige("proved checker validates every raw/off/on pair of the fixed corpus (%d/%d)"
                   % (stats["corpus_validated"], stats["corpus_pairs"]),
                   stats["corpus_pairs"] > 0 and stats["corpus_validated"] == stats["corpus_pairs"],
                   json.dumps(stats["not_validated_examples"], indent=1))
        ctx.oblige("proved checker validates >= 95%% of all pairs (%d/%d)" % (stats["validated"], stats["pairs"]),
                   stats["pairs"] > 0 and stats["validated"] * 100 >= stats["pairs"] * 95,
                   json.dumps(stats["not_validated_examples"], indent=1))
        ctx.oblige("hand-replayed pass pipeline (exported API) reproduces CompileCircuit gate for gate (%d programs x targets)"
                   % c.get("stage_tie_ok", 0),
                   c.get("stage_tie_ok", 0) > 0 and c.get("stage_tie_mismatch", 0) == 0,
                   "stage_tie_mismatch=%s" % c.get("stage_tie_mismatch"))
        ctx.oblige("generator: >= 85%% of generated programs compile", c.get("programs_gen", 0) * 100 >=
                   85 * (c.get("programs_gen", 0) + c.get("compile_fail_gen", 0)) and c.get("programs_gen", 0) > 0,
                   "ok=%s fail=%s" % (c.get("programs_gen"), c.get("compile_fail_gen")))
        ctx.oblige("the proved checker absRun was run on the real compiled circuit of every configuration of every program "
                   "(%d `topo` ops, %d on GMW-target circuits; the harness's own verdict is compared with it)"
                   % (c.get("topo_ops", 0), c.get("topo_ops_gmw", 0)),
                   c.get("topo_ops", 0) >= c.get("programs", 0) > 0 and c.get("topo_ops_gmw", 0) > 0, "")
        npass = {k: c.get("pass_ops_" + k, 0) for k in ("cp", "sc", "prune", "compile-yao", "compile-gmw")}
        ctx.coverage["pass_model_ops"] = npass
        ctx.oblige("pass models (Model/Passes.lean) were run against the real ConstPropagate / ShortCircuitXORZero / "
                   "Prune / Compile on dumped builder graphs (%s)" % npass, all(v > 0 for v in npass.values()), str(npass))
        need = ["feat_rawdiv", "programs_with_divisor_probe", "feat_*", "feat_/", "feat_%", "feat_if", "feat_for", "feat_identity", "feat_dead", "feat_<<", "feat_>>",
                "feat_cmp", "feat_cast", "programs_exhaustive", "programs_sampled", "pair_ops_raw-on", "pair_ops_off-on",
                "programs_sweep"]
        missing = [k for k in need if not c.get(k)]
        ctx.oblige("generator reached every feature class", not missing, "missing: %s" % missing)
        if ctx.widen:
            # widened search for a concrete differing input: more programs,
            # several seeds, generated programs only
            for s in range(ctx.seed + 7000, ctx.seed + 7004):
                ops, out, meta = ctx.run_hx("equiv", 150, seed=s, extra_args=["-extra", "nocorpus"], tag="-widen")
                ctx.absorb_meta(meta, prefix="widen_")
                if ctx.fails:
                    break
    ctx.coverage["rule"] = (
        "programs: fixed corpus (hand-written + repo examples/testsuite) + typed random MPCL programs (uintN/intN, "
        "+ - * / % & | ^ &^, constant shifts, comparisons, && || !, if/else, for, typed constants, algebraic identities, "
        "dead code, mixed argument widths; divisors are forced non-zero (d|1) except in the rawdiv flavour, which "
        "comes with a divisor probe); per program 12 real compilations {prune off,on} x {thr 0,8,9,21,64 | GMW} "
        "+ 8 staged compilations; distinct = distinct checker pair op lines whose two circuits differ in size; "
        "multiplier width sweep (6 per run, thorough 16: a*b, a*b+a and the full double-width product at seeded widths 9..72, two "
        "thirds odd - the Karatsuba split is uneven for odd widths - under every threshold and both targets); "
        "DIVISION SWEEP (mode divs): a/b and a%b at 16, 24, 32, 48, 64 bits plus seeded programs (odd widths 17..63, signed, "
        "mixed argument widths, forced non-zero divisor, results combined, constant divisor, a quotient divided again), "
        "{Yao, GMW} x {prune off, on} with limits that keep the GMW divider circuits (up to 4*10^6 gates) in the simulation; "
        "every non-enumerated program that divides is simulated on STRUCTURED division operands per argument pair: dividends "
        "{2^w-1, 2^w-2, 2^(w-1), 2^(w-1)+-1, random with the top bit set, ones above a cut, random length} x divisors {every "
        "value 1..4096, 2^k, 2^k+-1, runs of ones, 2^w-k, random of every length, values next to the dividend, its halves, "
        "thirds and square root} (about 2*10^5 operand pairs per run in the quick tier), compared across configurations and, "
        "for the sweep forms, against the integer quotient / remainder; "
        "EXTREME-SHAPE programs (seeded, calibrated against the compiler under test, dimensions measured on the compiled "
        "circuit): DEEP (dependent permutation chains on 1..3-bit values, compare-and-update loops on 16..64-bit values, one "
        "comparison of two ~22000-bit values: more than 2^16 levels under both targets; thorough: 2^17, ripple arithmetic on "
        "wide values, multiplication chains), WIDE / FAN-OUT (one select bit steering a ~67000-bit value; thorough: GMW "
        "divider before pruning, arrays): compiled for {Yao, GMW} x {prune off, on} (+ 2 thresholds when multiplying), "
        "simulated on corner, CORRELATED (arguments equal above a per-lane cut, so that carry chains are exercised) and "
        "random vectors, exhaustive when <= 16 input bits")
    ctx.assumptions += [
        "Lean code generation is trusted for running the proved checker natively (drv_c09)",
        "the circuits handed to the checker are the compiler's outputs rendered by hxlib.CircLine; the Lean evaluation "
        "model is tied to circuit.Circuit.Compute on 3 sampled inputs per pair",
        "threshold and Yao-vs-GMW equivalence is TESTED by bit-parallel simulation (exhaustive for <= 16 input bits, else "
        "sampled), not proved; only raw/prune-off/prune-on pairs per target and threshold are proved per program",
        "programs that divide, target axis: C09_program_target_equiv_div is CONDITIONAL on the estimate hypothesis "
        "(goldschmidt-estimate-within-one, C07) on the divider instances of the run; the hypothesis is evaluated, not proved: "
        "on the real compiled GMW circuits of the sweep programs for the structured operand classes (coverage.estimate_hypothesis) "
        "- operand pairs outside those classes and widths above 64 bits are not evaluated; signed division (idiv / imod) is "
        "outside the theorem (simulated and compared with its meaning only); the step lists of the sweep forms "
        "(Model/SsaDiv.lean divForm) are this check's rendition of the programs' meaning, not the compiler's SSA dump "
        "(C03 ties dumps)",
        "an output wire that no gate drives reads as 0 (Compute: make([]byte, NumWires)); modelled so in Lean "
        "(initStore) and in the checker (outAbs)",
        "circuits larger than the tier's size limits are skipped (counted in coverage.counters)",
        "pass models (Model/Passes.lean): wire fan-out counters are unbounded naturals (Go: 29 bits, panics above; the extreme-shape "
        "class reaches fan-outs above 2^16 (thorough: above 2^17, about 5*10^5 in the GMW divider before pruning), 2^29 is out of reach: such a builder graph needs > 20 GB); "
        "builder graphs above 12000 gates (extreme-shape programs: 150000) are not dumped for the pass-model tie",
        "gate levels: the models count in Nat, circuits.Gate.Level is a Go int (64 bits; advisory fact); the theorems transfer "
        "under the no-overflow side condition of C09_levels_bounded (every level below 2^k for a k-bit field), which the level "
        "oracle checks on the levels read back from the real compiler (coverage.extreme_max_compile_level, above 2^16 in every "
        "run); circuits deeper than 2^63 levels do not exist",
        "extreme-shape programs with more than 4096 input bits get no checker pair / pass-model ops in the quick tier (Lean "
        "driver time); their real compiled circuits are still checked by absRun (`topo` ops) and simulated",
        "Compile: the breadth-first numbering is validated per run by the model function compileChecked "
        "(C09_compile_preserves_partial), not proved complete/injective in general",
    ]
    ctx.trusted = list(vlib.DEFAULT_TRUSTED) + [
        "untrusted: the witness search (Go, hash-consing) - a wrong witness can only make the checker answer false",
    ]
    return ctx.finish(
        "Theorem C09_checker_sound: checkRefines C C' w w' = true implies C'.compute x = C.compute x for every input x "
        "(plus both circuits well-formed). Pass models: C09_constPropagate_preserves, C09_shortCircuit_preserves, "
        "C09_prune_preserves, C09_compile_preserves_partial and C09_pipeline_preserves are theorems about direct Lean models "
        "of the four passes over the builder gate/wire graph (values, fan-out counters, output lists, input-gate pointers); "
        "on every run each model is applied to the dumped real pre-pass graph and must reproduce the real post-pass graph / "
        "compiled circuit exactly, and the proved well-formedness checkers must accept every real pass input. "
        "The checker is run natively on circuits produced by the real compiler: for "
        "every program and target, raw (no pass) -> ConstPropagate -> +ShortCircuitXORZero (= prune off) -> +Prune "
        "(= prune on), and prune off -> on for each multiplier threshold; a validated pair is equivalent for ALL inputs. "
        "C09_levels / C09_gmw_schedule: Compile's (level, AND-first) sort and the GMW (AND-depth, non-AND-first) schedule "
        "are topological reorderings and leave evaluation unchanged; C09_levels_bounded: the same for the levels a k-bit "
        "field stores while no level reaches 2^k; C09_wrapped_levels_not_topological / _wrong_output: beyond that bound the "
        "sorted circuit is not topologically ordered and computes a wrong value (chain of 2^k+1 gates, every k >= 1; executed "
        "for k = 1..12 and, with k = 16, on a real compiled program deeper than 2^16 levels). Every real compiled circuit, "
        "including those of the extreme-shape programs (deeper than 2^16 levels, wider than 2^16 gates, fan-out above 2^16), "
        "is checked single-assignment and topologically ordered by the proved checker absRun (`topo` ops) and by the harness. "
        "Programs that divide: C09_program_target_equiv_div - the Yao and the GMW circuit of an SSA program with udiv / umod "
        "agree on every input on which the program is defined IF the Goldschmidt quotient estimate is within one on the "
        "divider instances (operand width, dividend, divisor) of that run; C09_div_wrong_output_refutes_estimate - a wrong GMW "
        "output exhibits an instance on which the hypothesis is false.  The division sweep evaluates exactly that on the real "
        "compiler's circuits: maximal / top-bit-set dividends x every small divisor and the other structured classes, at 16..64 "
        "bits, Yao vs GMW vs the integer quotient / remainder vs the Lean meaning (`div` ops). "
        "Oracle: every configuration simulated against the "
        "base configuration (Yao, no prune, default threshold). Known finding (narrow): a division by ZERO gives "
        "different values under the two targets (Lean witness on uint2 a/0), matched only when the divisor probe shows a "
        "zero divisor on every differing input. Three GMW-divider defects found by this check were fixed in /repo "
        "(90ed06e, dcb521a, 776d360) and are regression-tested by the fixed corpus and the uint7 probe.")

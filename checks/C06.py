"""C06 Oblivious transfer delivers exactly the chosen label."""
import hashlib
import os
import re
import sys

import vlib

sys.path.insert(0, os.path.dirname(os.path.abspath(__file__)))
from t1 import run_t1  # noqa: E402  (T1 leaf translator tie, checks/t1.py)

LEVEL = "proof"

THEOREMS = [
    # IKNP extension (Model/Iknp.lean)
    "Mpc.C06_iknp_transpose",
    "Mpc.C06_iknp_label_corr",
    "Mpc.C06_iknp_label_corr_malicious",
    "Mpc.C06_iknp_bits_corr",
    "Mpc.C06_iknp_bits_corr_eval",
    "Mpc.C06_iknp_bits_old_fails",
    "Mpc.C06_iknp_bits_old_witness",
    "Mpc.C06_iknp_session",
    # caller-provided output buffers (Model/IknpBuf.lean)
    "Mpc.C06_iknp_transpose_into",
    "Mpc.C06_iknp_receive_buffer_independent",
    "Mpc.C06_iknp_or_store_zero_buffer_ok",
    "Mpc.C06_iknp_or_store_dirty_witness",
    "Mpc.C06_iknp_history_buffers",
    "Mpc.C06_iknp_bits_dirty",
    "Mpc.C06_iknp_bits_dirty_old_witness",
    # COT / ROT with MITCCRH (Model/Cot.lean)
    "Mpc.C06_cot_delivers",
    "Mpc.C06_rot_consistent",
    "Mpc.C06_cot_end_to_end",
    "Mpc.C06_rot_end_to_end",
    # Chou-Orlandi in an abstract group (Model/Co.lean)
    "Mpc.C06_co_masks_agree",
    "Mpc.C06_co_delivers",
    # COT over IKNP over Chou-Orlandi base OTs
    "Mpc.C06_iknp_over_co",
    # RSA OT over Nat/Int arithmetic (Model/RsaOt.lean)
    "Mpc.C06_rsa_key_recovered",
    "Mpc.C06_rsa_delivers",
]


def distinct_ops(ctx, ops):
    for line in open(ops, errors="replace"):
        parts = line.split()
        if len(parts) >= 4:
            ctx.distinct.add(hashlib.sha1(line.encode()).digest())


def source_facts(ctx):
    """Constants the model hard-codes, read from the current source."""
    iknp = vlib.repo_file("ot/iknp.go")
    cot = vlib.repo_file("ot/cot.go")

    def const(src, name):
        m = re.search(r"^\s*%s\s*=\s*(.+?)\s*$" % re.escape(name), src, flags=re.M)
        return m.group(1) if m else None

    ctx.fact("ot/iknp.go constants K, chunkSize, chunkByteRows, chunkRows",
             [const(iknp, "K"), const(iknp, "chunkSize"), const(iknp, "chunkByteRows"), const(iknp, "chunkRows")],
             ["128", "8 * 1024", "chunkSize / K", "chunkByteRows * 8"])
    ctx.fact("ot/cot.go otBatchSize", const(cot, "otBatchSize"), "8")
    body = vlib.go_func_body("ot/iknp.go", r"\(r \*IKNPReceiver\) ReceiveBits") or ""
    m = re.search(r"words\s*:=\s*(.+?)\s*$", body, flags=re.M)
    ctx.fact("ReceiveBits XORs the choices in words := (byteRows + 7) / 8 words per chunk (Iknp.wordsHead; fix 564d319)",
             re.sub(r"\s+", "", m.group(1)) if m else None, "(byteRows+7)/8")


def run(ctx):
    ctx.prove("MpcVerif.Props.C06", THEOREMS)
    run_t1(ctx, ["C06"])          # ot.xor = Iknp.xorBytes
    if ctx.tier == "thorough":
        ctx.leanchecker("MpcVerif.Props.C06")
    ctx.build_drv()
    source_facts(ctx)
    quick = ctx.tier == "quick"
    n_iknp, n_cot, n_proto = (112, 48, 16) if quick else (320, 200, 60)
    n_cob = 18 if quick else 90
    seeds = [ctx.seed] if quick else [ctx.seed, ctx.seed + 1000, ctx.seed + 2000]
    if ctx.build_hx():
        for s in seeds:
            ops, out, meta = ctx.run_hx("iknp", n_iknp, seed=s)
            ctx.absorb_meta(meta)
            ctx.correspond("IKNP histories with named result buffers: u-matrix chunks, label vectors, packed words "
                           "byte-exact (seed %d)" % s, ops, out)
            distinct_ops(ctx, ops)
            ops, out, meta = ctx.run_hx("cot", n_cot, seed=s)
            ctx.absorb_meta(meta)
            ctx.correspond("COT/ROT histories with named result buffers: transcripts and outputs, MITCCRH.Hash "
                           "byte-exact (seed %d)" % s, ops, out)
            distinct_ops(ctx, ops)
            ops, out, meta = ctx.run_hx("co-bytes", n_cob, seed=s)
            ctx.absorb_meta(meta)
            ctx.correspond("Chou-Orlandi ot.CO on P-256: both wire byte streams and the receiver's labels byte-exact "
                           "(seed %d)" % s, ops, out)
            distinct_ops(ctx, ops)
            ops, out, meta = ctx.run_hx("proto", n_proto, seed=s)
            ctx.absorb_meta(meta)
        c = ctx.coverage.get("counters", {})
        ctx.evaluations += sum(v for k, v in c.items() if k.startswith("oracle_") and k.endswith("_batches"))
        # the generator must have reached every size class and every implementation
        need = ["iknp_n_mod%d_%s" % (m, t) for m in (8, 64, 128, 512) for t in ("0", "p1", "m1")] + \
               ["cot_n_mod%d_%s" % (m, t) for m in (8, 64, 128, 512) for t in ("0", "p1", "m1")] + \
               ["iknp_chunks_5", "cot_chunks_5", "iknp_kind_L", "iknp_kind_M", "iknp_kind_B",
                "iknp_cases_repeated_batches", "cot_cases_repeated_batches", "cot_reinit",
                "cobytes_random", "cobytes_reject", "cobytes_equal-scalars", "cobytes_zero-b-choice1",
                "cobytes_zero-b-choice0", "cobytes_zero-a", "cobytes_small-scalars", "cobytes_error_runs",
                "oracle_cobytes_batches",
                "oracle_co_batches", "oracle_cohelpers_batches", "oracle_coxfer_batches", "oracle_rsa_batches",
                "oracle_rsaxfer_batches", "oracle_cot_over_co_batches", "oracle_rot_over_co_batches"] + \
               ["cot_kind_%s_mal_%s_shared_%s" % (k, m, sh) for k in "cr" for m in ("true", "false")
                for sh in ("true", "false")] + \
               ["%s_%s" % (p, c) for p in ("iknp_label_buf", "iknp_bits_rbuf", "iknp_bits_sbuf", "cot_buf")
                for c in ("fresh", "kept", "kept_subslice", "ones", "bytefill", "random")] + \
               ["iknp_label_buf_nonzero_before_call", "cot_buf_nonzero_before_call", "rot_send_into_nonzero_wires",
                "iknp_bits_clean_buffers", "iknp_bits_dirty_buffers", "iknp_same_slice_as_previous_call_L",
                "iknp_same_slice_as_previous_call_M", "iknp_same_slice_as_previous_call_B", "cot_same_slice_as_previous_call",
                "co_buf_kept", "co_buf_ones", "co_buf_random", "cot_over_co_buf_random", "rot_over_co_buf_random"]
        missing = [k for k in need if not c.get(k)]
        ctx.oblige("generator reached every size class (n mod 8/64/128/512 in {0,+1,-1}, 5 chunks), all three IKNP "
                   "forms, every COT/ROT mode x sharing combination, all five implementations, and every class of "
                   "caller-provided result buffer (fresh, kept from the previous call, sub-slice, ones, byte fill, random)",
                   not missing, "not reached: %s" % missing)
        # the ReceiveBits defect fixed by 564d319 must NOT reproduce: the inputs on which the old code
        # failed (partial last word, Delta.Bit(0) = 1, a set choice bit in the tail) are exercised and
        # every one of them must satisfy the correlation now
        back = c.get("bits_old_defect_reproduced_batches", 0)
        ctx.coverage["receivebits_old_defect_inputs_exercised"] = c.get("bits_batches_old_defect_inputs", 0)
        ctx.coverage["receivebits_old_defect_reproduced"] = back
        ctx.oblige("inputs on which ReceiveBits failed before 564d319 are exercised (1 <= n % 64 <= 56, Delta.Bit(0) = 1, "
                   "set choice bit in the partial last word)", c.get("bits_batches_old_defect_inputs", 0) > 0,
                   "none generated")
        ctx.oblige("the ReceiveBits defect fixed by 564d319 does not reproduce on the real code", back == 0,
                   "%d packed-bit batches fail exactly as the old code (Lean: C06_iknp_bits_old_fails)" % back)
        # the SendBits/ReceiveBits defect repaired by 8f72c8a (result bits only ORed into the caller's words) must
        # NOT reproduce: packed-bit calls on result buffers that are not zero are exercised and judged like any other
        stale = c.get("bits_dirty_buffer_wrong_batches", 0)
        ctx.coverage["packed_bit_calls_on_nonzero_buffers"] = c.get("iknp_bits_dirty_buffers", 0)
        ctx.coverage["packed_bit_calls_on_nonzero_buffers_wrong_only_at_stale_bits"] = stale
        ctx.oblige("the SendBits/ReceiveBits defect fixed by 8f72c8a does not reproduce on the real code", stale == 0,
                   "%d packed-bit batches on non-zero result buffers are wrong exactly at positions that held a 1 "
                   "(Lean: C06_iknp_bits_dirty_old_witness)" % stale)
        if ctx.broken and not [f for f in ctx.fails if not ctx.is_known(f)]:
            # widened search for a concrete failing input (oracle only)
            for s in range(ctx.seed + 7000, ctx.seed + 7004):
                for mode, n in (("iknp", 400), ("cot", 300), ("co-bytes", 60), ("proto", 40)):
                    ops, out, meta = ctx.run_hx(mode, n, seed=s, tag="-widen")
                    ctx.absorb_meta(meta, prefix="widen_")
                if [f for f in ctx.fails if not ctx.is_known(f)]:
                    break
    ctx.coverage["rule"] = (
        "RESULT BUFFERS (iknp, cot modes; in the op lines, so the model runs the same contents; the class of the first "
        "call of every sweep case and a second call of the same form INTO THE SAME SLICE are planned by case index so that "
        "every class is reached for every seed, all other calls draw at random): every call gets a fresh "
        "zeroed slice (2/5) or a slice [off, off+needed+extra) of the party's long-lived array of the history - kept as "
        "the earlier calls left it (the buffer of the previous call), or overwritten first with 0xff, another byte, or an "
        "AES-CTR stream; label form extra = 0 (Receive requires equal lengths), packed-bit form also longer-than-needed "
        "slices; both SendBits and ReceiveBits buffers; ROT.Send into wires that held other labels; frame check: no array "
        "position outside the slice changes. proto mode: result slices fresh / previous array / window of ones or random "
        "bytes (oracle only). "
        "iknp/cot modes: a fixed sweep over 51 boundary sizes (1..2049: n mod 8/64/128/512 in {0,+-1}) then random "
        "sizes biased to k*m+{-1,0,1}, m in {8,64,128,512}, up to 4*512+1; 1-4 calls per initialised pair mixing "
        "label / malicious-label / packed-bit forms; choices all-0, all-1, random, alternating, tail-only; random "
        "and extreme Delta; base OT ideal (deterministic) or real Chou-Orlandi; transports ot.Pipe and p2p.Pipe; "
        "COT/ROT x malicious x shared with re-initialisation between batches. co-bytes mode: ot.CO sessions of 1-2 "
        "batches of 1-4 transfers (8-64 in thorough) over p2p.Conn on a recording hxlib.Duplex with tape-drawn scalars, "
        "incl. a rejected crypto/rand.Int candidate, receiver scalar = sender scalar (doubling, infinity as mask point), "
        "scalar 0 with choice 1, and the rejected encodings of the point at infinity (scalar 0 with choice 0, sender "
        "scalar 0). distinct = distinct op lines "
        "(each is a full tape + batch list). proto mode (oracle only): CO protocol, CO helpers on P-256/224/384/521, "
        "CO and RSA single-transfer APIs, RSA protocol (1024/1536/2048-bit keys), COT/ROT over real CO; thorough tier records a probe of COT over an RSA base (role inversion, evidence "
        "only).")
    ctx.assumptions += [
        "the block cipher / PRG is an arbitrary function in every theorem; Lean AES only matters for the byte-exact comparison",
        "IKNP theorems are relative to BaseOK (the 128 base OTs delivered the keys selected by Delta); base OT correctness is the CO / RSA part of this property",
        "Chou-Orlandi: the theorems are in an abstract commutative group and exclude the point-at-infinity encodings (probability ~2^-256 on P-256); that P-256 (crypto/elliptic, and its Lean re-implementation Model/P256.lean executed for the byte-exact comparison) is such a group is trusted, not proved",
        "RSA: crypto/rsa keys are trusted to satisfy (k^e)^d = k mod N; math/big Exp with a negative base is modelled as Euclidean (non-negative) reduction; PKCS#1 block type 1 pad/unpad round trip is a hypothesis of the theorem",
        "malicious mode: only honest runs are covered here (the consistency check itself is C15); its messages seed2/x/t0/t1 are not compared with a model",
        "packed-bit form: the correspondence and the oracle run on result buffers of every content (SendBits/ReceiveBits "
        "write each of their n bits since 8f72c8a; C06_iknp_bits_dirty); bits at positions >= n are required to stay as "
        "they were",
        "p2p.Conn / ot.Pipe are trusted transports (C11)",
    ]
    return ctx.finish(
        "Theorems (Props/C06.lean): IKNP label form received_i = sent_i xor choice_i*Delta for every n, every PRG "
        "stream family and every sequence of calls with the per-column stream positions as explicit state; "
        "createLabels is the bit-matrix transpose and writes every destination position whatever it held "
        "(C06_iknp_transpose_into), so Receive's rows are independent of the initial content of the caller's result "
        "buffer (C06_iknp_receive_buffer_independent) and every history of calls with arbitrary result buffers - fresh, "
        "the previous call's, windows of arrays with arbitrary content - delivers (C06_iknp_history_buffers; the "
        "OR-into-destination variant is shown equal on zero buffers and wrong on a non-zero one; packed-bit calls on "
        "every content of both result slices: every position < n correct, positions >= n unchanged, "
        "C06_iknp_bits_dirty, the pre-8f72c8a OR-only store kept as BitStore.orOnly with its negation witness); packed-bit form r_j = s_j xor (Delta.Bit(0) and c_j) for every n "
        "(the pre-564d319 word count is kept as receiveBitsOld with its negation theorem); COT/ROT deliver for every batch size and every MITCCRH cipher; CO masks agree and the HEAD helpers deliver in every commutative group, COT over IKNP over CO base OTs (roles reversed) delivers (C06_iknp_over_co); "
        "RSA OT recovers the blinding key. Tie: real IKNP sender/receiver, COT, ROT, MITCCRH run with "
        "deterministic tapes, u-matrix bytes / label vectors / packed words / ciphertexts compared byte for byte with "
        "the compiled Lean model (Lean AES-CTR/AES); real ot.CO over p2p.Conn vs the same CO model instantiated with "
        "Lean P-256 + SHA-256: every byte both parties write (curve name, A, B_i, e0/e1 frames) and the receiver's "
        "labels. Oracle: receiver's result = sender's label selected by the choice "
        "at every position for all five implementations, both adversary modes, shared/non-shared, repeated batches.")

"""C06 Oblivious transfer delivers exactly the chosen label."""
import hashlib
import json
import os
import re
import shutil
import sys

import vlib

sys.path.insert(0, os.path.dirname(os.path.abspath(__file__)))
from t1 import run_t1  # noqa: E402  (T1 leaf translator tie, checks/t1.py)

LEVEL = "proof"

THEOREMS = [
    # IKNP extension (Model/Iknp.lean)
    "Mpc.C06_iknp_transpose",
    "Mpc.C06_iknp_label_corr",
    "Mpc.C06_iknp_label_corr_malicious",
    "Mpc.C06_iknp_bits_corr",
    "Mpc.C06_iknp_bits_corr_eval",
    "Mpc.C06_iknp_bits_old_fails",
    "Mpc.C06_iknp_bits_old_witness",
    "Mpc.C06_iknp_session",
    # caller-provided output buffers (Model/IknpBuf.lean)
    "Mpc.C06_iknp_transpose_into",
    "Mpc.C06_iknp_receive_buffer_independent",
    "Mpc.C06_iknp_or_store_zero_buffer_ok",
    "Mpc.C06_iknp_or_store_dirty_witness",
    "Mpc.C06_iknp_history_buffers",
    "Mpc.C06_iknp_bits_dirty",
    "Mpc.C06_iknp_bits_dirty_old_witness",
    # COT / ROT with MITCCRH (Model/Cot.lean)
    "Mpc.C06_cot_delivers",
    "Mpc.C06_rot_consistent",
    "Mpc.C06_cot_end_to_end",
    "Mpc.C06_rot_end_to_end",
    # Chou-Orlandi in an abstract group (Model/Co.lean)
    "Mpc.C06_co_masks_agree",
    "Mpc.C06_co_delivers",
    # COT over IKNP over Chou-Orlandi base OTs
    "Mpc.C06_iknp_over_co",
    # RSA OT over Nat/Int arithmetic (Model/RsaOt.lean)
    "Mpc.C06_rsa_key_recovered",
    "Mpc.C06_rsa_delivers",
    # RSA OT as the code computes it: integers over Z, byte strings, every randomness (Model/RsaOtBytes.lean)
    "Mpc.C06_rsa_powmod",
    "Mpc.C06_rsa_exec_is_spec",
    "Mpc.C06_rsa_received_integer",
    "Mpc.C06_rsa_pkcs1_roundtrip",
    "Mpc.C06_rsa_delivers_bytes",
    "Mpc.C06_rsa_session_delivers",
    "Mpc.C06_rsa_modn_sender_negative",
    "Mpc.C06_rsa_modn_sender_witness",
]

RSA_K_CLASSES = ["honest", "0", "1", "2", "N-1", "N-2", "half", "sum=N-1", "sum=N", "sum=N+1", "top8", "top12", "top16",
                 "top20", "reject-N", "reject-max"]
RSA_X_CLASSES = ["honest", "0/max", "max/0", "N-1/N+1", "N/1", "1/N", "v=0", "v=1", "v=N-1", "xb>=N", "equal", "kc=0",
                 "kc=1", "kc=N-1", "kc-sum=N-1", "kc-sum=N", "kc-sum=N+1", "kc-top8", "kc-top16", "xc>=N"]


def rsa_variant_reach(ctx, ops):
    """Are the generated RSA transfers able to tell the code's integer sums from a sender that reduces mod N
    (Model/RsaOtBytes.lean wireModN, C06_rsa_modn_sender_negative)?  The same op lines are run on both models."""
    ops2 = ops + ".modn"
    with open(ops, errors="replace") as fi, open(ops2, "w") as fo:
        for line in fi:
            fo.write(line.replace("c06 rsa ", "c06 rsamodn ", 1))
    outp, rc = ctx.run_drv(ops2)
    batches = differs = total = 0
    for line in open(outp, errors="replace"):
        w = line.strip().split(";")
        total += len(w)
        d = w.count("differs")
        differs += d
        batches += 1 if d else 0
    c = ctx.coverage
    c["rsa_transfers_compared_with_mod_N_sender_variant"] = c.get("rsa_transfers_compared_with_mod_N_sender_variant", 0) + total
    c["rsa_transfers_on_which_a_mod_N_sender_differs"] = c.get("rsa_transfers_on_which_a_mod_N_sender_differs", 0) + differs
    ctx.oblige("the RSA transfers generated in this run include inputs on which integer sums and sums reduced mod N differ "
               "(pad(m_c) + k_c >= N for the chosen or the other message), in honest and in steered batches",
               rc == 0 and batches >= 4, "batches with such a transfer: %d, transfers: %d of %d" % (batches, differs, total))


def replay_exact(ctx):
    """`bin/check C06 --replay F`: when F holds an RSA case (the op line of a batch: key, messages, choices and the
    randomness of both parties), run exactly that op line again on the real code with the recorded key injected and
    compare it with the model, before the seeded run."""
    if "--replay" not in sys.argv:
        return
    try:
        rp = sys.argv[sys.argv.index("--replay") + 1]
        rp = rp if os.path.isabs(rp) else os.path.join(vlib.VERIF, rp)
        f = json.load(open(rp)).get("failure") or {}
    except Exception:
        return
    if not (f.get("replay") or {}).get("mode") == "rsa":
        return
    cp = os.path.join(vlib.VERIF, ".work", "C06-replay-%d.json" % os.getpid())   # finish() rewrites the replay file
    shutil.copy(rp, cp)
    ops, out, meta = ctx.run_hx("rsa", 1, extra_args=["-extra", "replay=" + cp], tag="-replay")
    os.unlink(cp)
    try:
        got = open(out).readline().strip()
    except OSError:
        got = "(no output)"
    print("replayed the recorded RSA op line (%s, transfer %s of case %s, k class %s, %s-bit key injected); real code:\n  %s" % (
        f.get("sig"), f.get("transfer"), f.get("case"), f.get("k_class"), f.get("bits"), got[:1200]))
    again = meta.get("oracle_fails") or []
    for g in again:
        print("  FAILS AGAIN: %s transfer %s: %s (%s)" % (g.get("sig"), g.get("transfer"), g.get("what"), g.get("sum_vs_N")))
        g["found_by"] = "exact replay of " + os.path.basename(rp)
    if not again:
        print("  the recorded case passes on this tree")
    ctx.absorb_meta(meta, prefix="replay_")
    ctx.correspond("replayed RSA op line: v, both transfer messages and the receiver's outcome = Lean model", ops, out)


def distinct_ops(ctx, ops):
    for line in open(ops, errors="replace"):
        parts = line.split()
        if len(parts) >= 4:
            ctx.distinct.add(hashlib.sha1(line.encode()).digest())


def source_facts(ctx):
    """Constants the model hard-codes, read from the current source."""
    iknp = vlib.repo_file("ot/iknp.go")
    cot = vlib.repo_file("ot/cot.go")

    def const(src, name):
        m = re.search(r"^\s*%s\s*=\s*(.+?)\s*$" % re.escape(name), src, flags=re.M)
        return m.group(1) if m else None

    ctx.fact("ot/iknp.go constants K, chunkSize, chunkByteRows, chunkRows",
             [const(iknp, "K"), const(iknp, "chunkSize"), const(iknp, "chunkByteRows"), const(iknp, "chunkRows")],
             ["128", "8 * 1024", "chunkSize / K", "chunkByteRows * 8"])
    ctx.fact("ot/cot.go otBatchSize", const(cot, "otBatchSize"), "8")
    body = vlib.go_func_body("ot/iknp.go", r"\(r \*IKNPReceiver\) ReceiveBits") or ""
    m = re.search(r"words\s*:=\s*(.+?)\s*$", body, flags=re.M)
    ctx.fact("ReceiveBits XORs the choices in words := (byteRows + 7) / 8 words per chunk (Iknp.wordsHead; fix 564d319)",
             re.sub(r"\s+", "", m.group(1)) if m else None, "(byteRows+7)/8")


def run(ctx):
    ctx.prove("MpcVerif.Props.C06", THEOREMS)
    run_t1(ctx, ["C06"])          # ot.xor = Iknp.xorBytes
    if ctx.tier == "thorough":
        ctx.leanchecker("MpcVerif.Props.C06")
    ctx.build_drv()
    source_facts(ctx)
    quick = ctx.tier == "quick"
    n_iknp, n_cot, n_proto = (112, 48, 16) if quick else (320, 200, 60)
    n_cob = 18 if quick else 90
    seeds = [ctx.seed] if quick else [ctx.seed, ctx.seed + 1000, ctx.seed + 2000]
    if ctx.build_hx():
        replay_exact(ctx)
        for s in seeds:
            # RSA OT with the random sources of both parties under control (rsa.go): first, so that its (few, exact)
            # failures are the headline
            ops, out, meta = ctx.run_hx("rsa", 1, seed=s)
            ctx.absorb_meta(meta)
            ctx.correspond("RSA OT (ot.RSA over a transport and the Sender/Receiver single-transfer API), keys of usual and "
                           "odd widths, honest and steered randomness of both parties: v, both transfer messages and the "
                           "receiver's outcome of every transfer byte-exact (seed %d)" % s, ops, out)
            distinct_ops(ctx, ops)
            if s == seeds[0]:
                rsa_variant_reach(ctx, ops)
            ops, out, meta = ctx.run_hx("iknp", n_iknp, seed=s)
            ctx.absorb_meta(meta)
            ctx.correspond("IKNP histories with named result buffers: u-matrix chunks, label vectors, packed words "
                           "byte-exact (seed %d)" % s, ops, out)
            distinct_ops(ctx, ops)
            ops, out, meta = ctx.run_hx("cot", n_cot, seed=s)
            ctx.absorb_meta(meta)
            ctx.correspond("COT/ROT histories with named result buffers: transcripts and outputs, MITCCRH.Hash "
                           "byte-exact (seed %d)" % s, ops, out)
            distinct_ops(ctx, ops)
            ops, out, meta = ctx.run_hx("co-bytes", n_cob, seed=s)
            ctx.absorb_meta(meta)
            ctx.correspond("Chou-Orlandi ot.CO on P-256: both wire byte streams and the receiver's labels byte-exact "
                           "(seed %d)" % s, ops, out)
            distinct_ops(ctx, ops)
            ops, out, meta = ctx.run_hx("proto", n_proto, seed=s)
            ctx.absorb_meta(meta)
        c = ctx.coverage.get("counters", {})
        ctx.evaluations += sum(v for k, v in c.items() if k.startswith("oracle_") and k.endswith("_batches"))
        # the generator must have reached every size class and every implementation
        need = ["iknp_n_mod%d_%s" % (m, t) for m in (8, 64, 128, 512) for t in ("0", "p1", "m1")] + \
               ["cot_n_mod%d_%s" % (m, t) for m in (8, 64, 128, 512) for t in ("0", "p1", "m1")] + \
               ["iknp_chunks_5", "cot_chunks_5", "iknp_kind_L", "iknp_kind_M", "iknp_kind_B",
                "iknp_cases_repeated_batches", "cot_cases_repeated_batches", "cot_reinit",
                "cobytes_random", "cobytes_reject", "cobytes_equal-scalars", "cobytes_zero-b-choice1",
                "cobytes_zero-b-choice0", "cobytes_zero-a", "cobytes_small-scalars", "cobytes_error_runs",
                "oracle_cobytes_batches",
                "oracle_co_batches", "oracle_cohelpers_batches", "oracle_coxfer_batches", "oracle_rsa_batches",
                "oracle_rsaxfer_batches", "oracle_cot_over_co_batches", "oracle_rot_over_co_batches"] + \
               ["rsa_k_" + k for k in RSA_K_CLASSES] + ["rsa_x_" + k for k in RSA_X_CLASSES] + \
               ["rsa_api_proto", "rsa_api_xfer", "rsa_key_nat", "rsa_key_inj-low", "rsa_key_inj-high", "rsa_bits_1025",
                "rsa_bits_1031", "rsa_bits_2047", "rsa_bits_1024", "rsa_bits_2048", "rsa_bits_not_multiple_of_8",
                "rsa_chosen_sum_ge_N", "rsa_rejected_candidates_1", "rsa_too_long_planned", "rsa_e_3", "rsa_e_65537"] + \
               ["cot_kind_%s_mal_%s_shared_%s" % (k, m, sh) for k in "cr" for m in ("true", "false")
                for sh in ("true", "false")] + \
               ["%s_%s" % (p, c) for p in ("iknp_label_buf", "iknp_bits_rbuf", "iknp_bits_sbuf", "cot_buf")
                for c in ("fresh", "kept", "kept_subslice", "ones", "bytefill", "random")] + \
               ["iknp_label_buf_nonzero_before_call", "cot_buf_nonzero_before_call", "rot_send_into_nonzero_wires",
                "iknp_bits_clean_buffers", "iknp_bits_dirty_buffers", "iknp_same_slice_as_previous_call_L",
                "iknp_same_slice_as_previous_call_M", "iknp_same_slice_as_previous_call_B", "cot_same_slice_as_previous_call",
                "co_buf_kept", "co_buf_ones", "co_buf_random", "cot_over_co_buf_random", "rot_over_co_buf_random"]
        missing = [k for k in need if not c.get(k)]
        ctx.oblige("generator reached every size class (n mod 8/64/128/512 in {0,+1,-1}, 5 chunks), all three IKNP "
                   "forms, every COT/ROT mode x sharing combination, all five implementations, every class of "
                   "caller-provided result buffer (fresh, kept from the previous call, sub-slice, ones, byte fill, random), and "
                   "for RSA every steering class of k and of x0/x1, both APIs, generated and injected keys, widths that are "
                   "not a multiple of 8, transfers with pad(m_b) + k >= N, rejected rand.Int candidates",
                   not missing, "not reached: %s" % missing)
        # the ReceiveBits defect fixed by 564d319 must NOT reproduce: the inputs on which the old code
        # failed (partial last word, Delta.Bit(0) = 1, a set choice bit in the tail) are exercised and
        # every one of them must satisfy the correlation now
        back = c.get("bits_old_defect_reproduced_batches", 0)
        ctx.coverage["receivebits_old_defect_inputs_exercised"] = c.get("bits_batches_old_defect_inputs", 0)
        ctx.coverage["receivebits_old_defect_reproduced"] = back
        ctx.oblige("inputs on which ReceiveBits failed before 564d319 are exercised (1 <= n % 64 <= 56, Delta.Bit(0) = 1, "
                   "set choice bit in the partial last word)", c.get("bits_batches_old_defect_inputs", 0) > 0,
                   "none generated")
        ctx.oblige("the ReceiveBits defect fixed by 564d319 does not reproduce on the real code", back == 0,
                   "%d packed-bit batches fail exactly as the old code (Lean: C06_iknp_bits_old_fails)" % back)
        # the SendBits/ReceiveBits defect repaired by 8f72c8a (result bits only ORed into the caller's words) must
        # NOT reproduce: packed-bit calls on result buffers that are not zero are exercised and judged like any other
        stale = c.get("bits_dirty_buffer_wrong_batches", 0)
        ctx.coverage["packed_bit_calls_on_nonzero_buffers"] = c.get("iknp_bits_dirty_buffers", 0)
        ctx.coverage["packed_bit_calls_on_nonzero_buffers_wrong_only_at_stale_bits"] = stale
        ctx.oblige("the SendBits/ReceiveBits defect fixed by 8f72c8a does not reproduce on the real code", stale == 0,
                   "%d packed-bit batches on non-zero result buffers are wrong exactly at positions that held a 1 "
                   "(Lean: C06_iknp_bits_dirty_old_witness)" % stale)
        if ctx.broken and not [f for f in ctx.fails if not ctx.is_known(f)]:
            # widened search for a concrete failing input (oracle only)
            for s in range(ctx.seed + 7000, ctx.seed + 7004):
                for mode, n in (("iknp", 400), ("cot", 300), ("co-bytes", 60), ("proto", 40)):
                    ops, out, meta = ctx.run_hx(mode, n, seed=s, tag="-widen")
                    ctx.absorb_meta(meta, prefix="widen_")
                if [f for f in ctx.fails if not ctx.is_known(f)]:
                    break
    ctx.coverage["rule"] = (
        "RESULT BUFFERS (iknp, cot modes; in the op lines, so the model runs the same contents; the class of the first "
        "call of every sweep case and a second call of the same form INTO THE SAME SLICE are planned by case index so that "
        "every class is reached for every seed, all other calls draw at random): every call gets a fresh "
        "zeroed slice (2/5) or a slice [off, off+needed+extra) of the party's long-lived array of the history - kept as "
        "the earlier calls left it (the buffer of the previous call), or overwritten first with 0xff, another byte, or an "
        "AES-CTR stream; label form extra = 0 (Receive requires equal lengths), packed-bit form also longer-than-needed "
        "slices; both SendBits and ReceiveBits buffers; ROT.Send into wires that held other labels; frame check: no array "
        "position outside the slice changes. proto mode: result slices fresh / previous array / window of ones or random "
        "bytes (oracle only). "
        "iknp/cot modes: a fixed sweep over 51 boundary sizes (1..2049: n mod 8/64/128/512 in {0,+-1}) then random "
        "sizes biased to k*m+{-1,0,1}, m in {8,64,128,512}, up to 4*512+1; 1-4 calls per initialised pair mixing "
        "label / malicious-label / packed-bit forms; choices all-0, all-1, random, alternating, tail-only; random "
        "and extreme Delta; base OT ideal (deterministic) or real Chou-Orlandi; transports ot.Pipe and p2p.Pipe; "
        "COT/ROT x malicious x shared with re-initialisation between batches. co-bytes mode: ot.CO sessions of 1-2 "
        "batches of 1-4 transfers (8-64 in thorough) over p2p.Conn on a recording hxlib.Duplex with tape-drawn scalars, "
        "incl. a rejected crypto/rand.Int candidate, receiver scalar = sender scalar (doubling, infinity as mask point), "
        "scalar 0 with choice 1, and the rejected encodings of the point at infinity (scalar 0 with choice 0, sender "
        "scalar 0). distinct = distinct op lines "
        "(each is a full tape + batch list). rsa mode (rsa.go; op `rsa`, model Model/RsaOtBytes.lean): ot.RSA over a transport and "
        "the ot.Sender / ot.Receiver single-transfer API on keys the code generates (1024, 1025, 1031, 2047, 2048 bits; "
        "thorough also 1033, 1536, 2049) and on injected keys (modulus just above 2^(bits-1) / just below 2^bits / anywhere, "
        "e in {3, 17, 65537}); both parties read their randomness from tapes the harness wrote: HONEST batches (uniform bytes, "
        "rand.Int's rejected candidates included; 448 transfers in quick, ~4000 per seed in thorough, most at widths that are not a "
        "multiple of 8 where pad(m) + k >= N has probability 2^-7.5) and STEERED batches (one transfer per class: k in {0, 1, 2, "
        "N-1, N-2, N/2, N - pad(m_b) + {-1, 0, 1}, top 2^-8 / 2^-12 / 2^-16 / 2^-20 of [0, N), a rejected candidate N or "
        "2^bitlen - 1 first}; x_b, x_c in {0, 1, N-1, N, N+1, 2^(8 size) - 1, v = 0 / 1 / N-1, x >= N, x_b = x_c, and x_c solved "
        "for k_c in {0, 1, N-1, N - pad(m_c) + {-1, 0, 1}, top 2^-8 / 2^-16}}, then random pairs of classes; single-transfer "
        "API also message lengths 0, 1, messageSize - 11 and messageSize - 10 (rejected), zero bytes inside). The op line "
        "carries key, messages, choices, x0, x1, k of every transfer; the model must give v, both transfer messages and the "
        "receiver's outcome byte for byte. A failing transfer is re-run alone (transfers are independent) and that "
        "single-transfer op line is the replay (`--replay` injects the recorded key). proto mode (oracle only): CO protocol, CO helpers on P-256/224/384/521, "
        "CO and RSA single-transfer APIs, RSA protocol (1024/1536/2048-bit keys), COT/ROT over real CO; thorough tier records a probe of COT over an RSA base (role inversion, evidence "
        "only).")
    ctx.assumptions += [
        "the block cipher / PRG is an arbitrary function in every theorem; Lean AES only matters for the byte-exact comparison",
        "IKNP theorems are relative to BaseOK (the 128 base OTs delivered the keys selected by Delta); base OT correctness is the CO / RSA part of this property",
        "Chou-Orlandi: the theorems are in an abstract commutative group and exclude the point-at-infinity encodings (probability ~2^-256 on P-256); that P-256 (crypto/elliptic, and its Lean re-implementation Model/P256.lean executed for the byte-exact comparison) is such a group is trusted, not proved",
        "RSA: crypto/rsa keys are trusted to satisfy (k^e)^d = k mod N (hypothesis hkey of the RSA theorems; injected keys are built by the harness from two probable primes); math/big Exp with a negative base is modelled as Euclidean (non-negative) reduction and compared byte for byte on every transfer (x_c > v and x_c >= N are steered classes); the PKCS#1 block type 1 pad / SetBytes / Bytes / left-pad / parse round trip is proved for the byte-level model (C06_rsa_pkcs1_roundtrip) and stays a hypothesis only in the abstract-framing theorem C06_rsa_delivers",
        "RSA: the private exponent of a key the code generated itself is read through reflection from the unexported fields ot.RSA.priv / ot.Sender.key (and injected keys are written there and into ot.RSA.pub): a tree that renames these fields breaks the harness run (reported as c06-rsa-harness), not the property",
        "RSA over ot.Pipe: a zero-length SendData (v = 0, probability 1/N with honest randomness) is never answered by ot.Pipe.ReceiveData (io.Pipe Read on an empty slice waits for the peer's next write): steered RSA batches run over p2p.Conn; transports are C11's subject",
        "malicious mode: only honest runs are covered here (the consistency check itself is C15); its messages seed2/x/t0/t1 are not compared with a model",
        "packed-bit form: the correspondence and the oracle run on result buffers of every content (SendBits/ReceiveBits "
        "write each of their n bits since 8f72c8a; C06_iknp_bits_dirty); bits at positions >= n are required to stay as "
        "they were",
        "p2p.Conn / ot.Pipe are trusted transports (C11)",
    ]
    return ctx.finish(
        "Theorems (Props/C06.lean): IKNP label form received_i = sent_i xor choice_i*Delta for every n, every PRG "
        "stream family and every sequence of calls with the per-column stream positions as explicit state; "
        "createLabels is the bit-matrix transpose and writes every destination position whatever it held "
        "(C06_iknp_transpose_into), so Receive's rows are independent of the initial content of the caller's result "
        "buffer (C06_iknp_receive_buffer_independent) and every history of calls with arbitrary result buffers - fresh, "
        "the previous call's, windows of arrays with arbitrary content - delivers (C06_iknp_history_buffers; the "
        "OR-into-destination variant is shown equal on zero buffers and wrong on a non-zero one; packed-bit calls on "
        "every content of both result slices: every position < n correct, positions >= n unchanged, "
        "C06_iknp_bits_dirty, the pre-8f72c8a OR-only store kept as BitStore.orOnly with its negation witness); packed-bit form r_j = s_j xor (Delta.Bit(0) and c_j) for every n "
        "(the pre-564d319 word count is kept as receiveBitsOld with its negation theorem); COT/ROT deliver for every batch size and every MITCCRH cipher; CO masks agree and the HEAD helpers deliver in every commutative group, COT over IKNP over CO base OTs (roles reversed) delivers (C06_iknp_over_co); "
        "RSA OT recovers the blinding key; as the code computes it - transfer messages pad(m_c) + k_c summed and subtracted "
        "over the INTEGERS, never reduced: the receiver unpads exactly pad(m_b) for EVERY k < N and every x0, x1 "
        "(C06_rsa_received_integer), the PKCS#1 framing round-trips through SetBytes/Bytes (C06_rsa_pkcs1_roundtrip), every "
        "transfer and every batch delivers at byte level for every randomness (C06_rsa_delivers_bytes, "
        "C06_rsa_session_delivers), the executed square-and-multiply model is the specification (C06_rsa_powmod, "
        "C06_rsa_exec_is_spec); the variant whose sender reduces mod N is shown to hand the receiver pad(m_b) - N < 0 whenever "
        "pad(m_b) + k >= N (C06_rsa_modn_sender_negative, byte-level witness at an 89-bit modulus). Tie: real IKNP sender/receiver, COT, ROT, MITCCRH run with "
        "deterministic tapes, u-matrix bytes / label vectors / packed words / ciphertexts compared byte for byte with "
        "the compiled Lean model (Lean AES-CTR/AES); real ot.CO over p2p.Conn vs the same CO model instantiated with "
        "Lean P-256 + SHA-256: every byte both parties write (curve name, A, B_i, e0/e1 frames) and the receiver's "
        "labels; real ot.RSA / ot.Sender / ot.Receiver with both random sources on harness tapes vs Model/RsaOtBytes.lean: v, "
        "m0', m1' and the outcome of every transfer. Oracle: receiver's result = sender's label selected by the choice "
        "at every position for all five implementations, both adversary modes, shared/non-shared, repeated batches.")

"""C07 Arithmetic and logic circuit builders are exact for every width."""
import hashlib
import re

import vlib

LEVEL = "proof"

THEOREMS = [
    "Mpc.C07_adder",
    "Mpc.C07_bridge_plainEval",
    "Mpc.C07_adder_compute_model",
    "Mpc.C07_sub",
    "Mpc.C07_ksAdder_stages",
    "Mpc.C07_ksAdder",
    "Mpc.C07_ksAdder_too_few_stages_wrong",
    "Mpc.C07_ksSub_stages",
    "Mpc.C07_ksSub",
    "Mpc.C07_ksSub_too_few_stages_wrong",
    "Mpc.C07_ucmp",
    "Mpc.C07_intCmp_partial",
    "Mpc.C07_intCmp_equal_width",
    "Mpc.C07_intCmp_unequal_wrong",
    "Mpc.C07_eq",
    "Mpc.C07_neq",
    "Mpc.C07_mux",
    "Mpc.C07_band",
    "Mpc.C07_bor",
    "Mpc.C07_bxor",
    "Mpc.C07_bclr",
    "Mpc.C07_logical",
    "Mpc.C07_bittest",
    "Mpc.C07_index",
    "Mpc.C07_hamming",
    "Mpc.C07_arrayMult",
    "Mpc.C07_karatsuba",
    "Mpc.C07_mul_yao",
    "Mpc.C07_wallace",
    "Mpc.C07_mul_gmw",
    "Mpc.C07_udiv",
    "Mpc.C07_umod",
    "Mpc.C07_idiv_equal_width",
    "Mpc.C07_imod_equal_width",
]

# builder called per SSA opcode in compiler/ssa/circuitgen.go (T2)
EXPECT_DISPATCH = {
    "Iadd,Uadd": "NewAdder", "Isub,Usub": "NewSubtractor", "Imult,Umult": "NewMultiplier",
    "Idiv": "NewIDivider", "Udiv": "NewUDivider", "Imod": "NewIDivider", "Umod": "NewUDivider",
    "Index": "NewIndex",
    "Ilt": "NewIntLtComparator", "Ult": "NewUintLtComparator", "Ile": "NewIntLeComparator",
    "Ule": "NewUintLeComparator", "Igt": "NewIntGtComparator", "Ugt": "NewUintGtComparator",
    "Ige": "NewIntGeComparator", "Uge": "NewUintGeComparator", "Eq": "NewEqComparator",
    "Neq": "NewNeqComparator", "Bts": "NewBitSetTest", "Btc": "NewBitClrTest", "And": "NewLogicalAND",
    "Or": "NewLogicalOR", "Band": "NewBinaryAND", "Bclr": "NewBinaryClear", "Bor": "NewBinaryOR",
    "Bxor": "NewBinaryXOR", "Phi": "NewMUX",
}

EXPECT_TARGET = {
    "NewAdder": "NewKoggeStoneAdder", "NewSubtractor": "NewKoggeStoneSubtractor",
    "NewMultiplier": "NewWallaceMultiplier", "NewUDivider": "NewUDividerGoldschmidtFast",
}


def dispatch_facts(ctx):
    src = vlib.repo_file("compiler/ssa/circuitgen.go")
    got = {}
    for m in re.finditer(r"\n\t\tcase ([A-Z][A-Za-z, ]*):\n(.*?)(?=\n\t\tcase |\n\t\tdefault:)", src, flags=re.S):
        ops = m.group(1).replace(" ", "")
        calls = re.findall(r"circuits\.(New\w+)\(", m.group(2))
        if calls:
            got[ops] = calls[0]
    ctx.fact("builder called per SSA opcode (circuitgen.go)", got, EXPECT_DISPATCH)
    tg = {}
    for fn, f in (("NewAdder", "circ_adder.go"), ("NewSubtractor", "circ_subtractor.go"),
                  ("NewMultiplier", "circ_multiplier.go"), ("NewUDivider", "circ_divider.go")):
        body = vlib.go_func_body("compiler/circuits/" + f, fn + r"\(") or ""
        m = re.search(r"Target == utils\.TargetGMW \{\s*return (\w+)\(", body)
        tg[fn] = m.group(1) if m else None
    ctx.fact("GMW target dispatch inside the builders", tg, EXPECT_TARGET)
    # the GMW divider is not modelled in Lean: pin the repaired prologue/epilogue (dcb521a, 90ed06e)
    gd = vlib.go_func_body("compiler/circuits/circ_gmw_divider.go", r"NewUDividerGoldschmidtFast\(") or ""
    ctx.fact("NewUDividerGoldschmidtFast pads its operands first and connects q/r through muxResult (errors returned)",
             {"zeropad_first": bool(re.search(r"\{\s*a, b = cc\.ZeroPad\(a, b\)\s*n := len\(a\)", gd)),
              "muxResult_q": "muxResult(cc, []*Wire{isNeg}, qMinus1, qHigh, qFinal)" in gd,
              "muxResult_r": "return muxResult(cc, []*Wire{isNeg}, rPlusB, rHigh, rFinal)" in gd},
             {"zeropad_first": True, "muxResult_q": True, "muxResult_r": True})
    # ret wires results through ID gates
    m = re.search(r"case Ret:(.*?)case Circ:", src, flags=re.S)
    ctx.fact("`ret` passes every result wire through cc.ID to a fresh output wire",
             bool(m and "cc.ID(w, o)" in m.group(1) and "cc.Calloc.Wire()" in m.group(1)), True)


def threshold_fact(ctx):
    """multiplierArrayTresholds (Go map) == Lean `multiplierArrayThreshold` for widths < 275."""
    src = vlib.repo_file("compiler/circuits/circ_multiplier_params.go")
    table = {int(a): int(b) for a, b in re.findall(r"^\s+(\d+):\s+(\d+),", src, flags=re.M)}
    go = [table.get(n, 21) for n in range(1, 275)]
    ops = "".join("c07 thr %d\n" % n for n in range(1, 275))
    p = ctx.work + "/thr.ops"
    open(p, "w").write(ops)
    outp, rc = ctx.run_drv(p)
    lean = [int(x) if x.strip().isdigit() else -1 for x in open(outp).read().split("\n") if x.strip()]
    ctx.fact("Karatsuba array thresholds: Go table = Lean model for widths 1..274",
             hashlib.sha1(str(lean).encode()).hexdigest(), hashlib.sha1(str(go).encode()).hexdigest())


def run(ctx):
    ctx.prove("MpcVerif.Props.C07", THEOREMS)
    if ctx.tier == "thorough":
        ctx.leanchecker("MpcVerif.Props.C07")
    ctx.build_drv()
    dispatch_facts(ctx)
    threshold_fact(ctx)
    if ctx.build_hx():
        # T4/T3 correspondence: canonical cc.Gates of the real builder vs the
        # Lean generator; sample evaluations; compiled circuits through the
        # Lean evaluator.
        ops, out, meta = ctx.run_hx("corr", 0, seed=ctx.seed)
        ctx.absorb_meta(meta, prefix="corr_")
        ctx.correspond("builders: gate lists (T4) and evaluations (T3)", ops, out)
        for line in open(ops, errors="replace"):
            f = line.split(" ", 10)
            if len(f) > 9 and f[1] == "gen":
                ctx.distinct.add(" ".join(f[2:10]))
        # implementation-side oracle
        ops, out, meta = ctx.run_hx("oracle", 0, seed=ctx.seed)
        ctx.absorb_meta(meta, prefix="oracle_")
        c = meta.get("counters", {})
        ctx.evaluations += c.get("evaluations", 0)
        ctx.coverage["oracle_cases"] = c.get("cases", 0)
        ctx.coverage["oracle_exhaustive_cases"] = c.get("exhaustive_cases", 0)
        ctx.oblige("oracle ran (cases > 1000, evaluations > 10^6)",
                   c.get("cases", 0) > 1000 and c.get("evaluations", 0) > 10 ** 6, str(c)[:500])
        if ctx.broken and not [f for f in ctx.fails if not ctx.is_known(f)]:
            # widened search for a concrete failing input: other seeds for the
            # sampled part of the oracle
            for s in range(ctx.seed + 7000, ctx.seed + 7003):
                ops, out, meta = ctx.run_hx("oracle", 0, seed=s, tag="-widen", extra_args=["-tier", "quick"])
                ctx.absorb_meta(meta, prefix="widen_")
                if [f for f in ctx.fails if not ctx.is_known(f)]:
                    break
    ctx.coverage["rule"] = (
        "oracle: every builder x {Yao,GMW} x operand widths 1..E (E=5 quick + equal widths 6..8, E=8 thorough) x result "
        "widths {1,max-1,max,max+1,2max,2max+1,2max+3} with ALL operand values, plus boundary-biased samples at widths up "
        "to 130 (Karatsuba thresholds, 2^k, 2^k+-1); with and without the ZeroWire/OneWire prologue; with and without "
        "ConstPropagate/ShortCircuitXORZero/Prune; every compiled circuit is also evaluated by Circuit.Compute on "
        "sampled inputs and its raw cc.Gates in list order. distinct = distinct (builder,target,prologue,widths,par) "
        "instantiations whose full canonical gate list was compared with the Lean generator")
    ctx.assumptions += [
        "wires are numbered by first occurrence in cc.Gates; wire pointer identity = number identity",
        "Compile (wire id assignment, BFS order, GMW level sort) is validated by evaluation only, not modelled",
        "the theorems are about the gate list in emission order under sequential evaluation",
    ]
    ctx.assumptions += [
        "signed builders: the specification reads each operand as two's complement at ITS OWN width; the signed "
        "division/modulo specification is the one fixed by testsuite/lang/divi.mpcl, modi.mpcl (quotient truncates toward "
        "zero, remainder |a| mod |b|)",
        "Karatsuba limits below 3 are excluded (the Go recursion does not terminate; the compiler uses limits >= 8)",
    ]
    return ctx.finish(
        "Theorems (Props/C07.lean, all operand/result widths, all values, both prologue variants): ripple adder and "
        "subtractor; Kogge-Stone adder and subtractor (prefix-network interval invariant; too few stages shown wrong); "
        "unsigned comparators; signed comparators (exact for equal widths, zero-extension semantics otherwise, negation "
        "witness); Eq/Neq; MUX; bitwise AND/OR/XOR/Clear; logical AND/OR; bit tests; NewIndex; Hamming (both targets); "
        "array multiplier (row-accumulation invariant); Karatsuba for every threshold >= 3 and NewMultiplier on the Yao "
        "target; Wallace multiplier (column-sum invariant) and NewMultiplier on the GMW target; long divider "
        "(restoring-division invariant, non-zero divisor, result width <= operand width) and NewIDivider for equal "
        "operand widths (quotient truncates toward zero, remainder |a| mod |b|); bridge lemma to the C01 plain evaluator. "
        "Tie T4: for every modelled builder (adders, subtractors incl. Kogge-Stone, array/Karatsuba/Wallace "
        "multipliers, long divider, signed divider (Yao), comparators, MUX, index, bitwise, Hamming) the Lean generator reproduces the real cc.Gates "
        "gate for gate (canonical first-occurrence numbering) on all width triples listed under coverage; T3: sample "
        "evaluations and the Lean Circuit.compute on Go-compiled circuits (Goldschmidt / restoring / array dividers: evaluator only). Oracle: real "
        "builder -> Compile -> bit-sliced evaluation vs math/big, exhaustive at small widths, sampled to 130 bits, "
        "cross-checked with Circuit.Compute and with the raw cc.Gates order. Known findings are matched on "
        "(algorithm, width relation, failure class) so other failures of the same builder are still reported.")

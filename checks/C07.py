"""C07 Arithmetic and logic circuit builders are exact for every width."""
import hashlib
import re

import vlib

LEVEL = "proof"

THEOREMS = [
    "Mpc.C07_adder",
    "Mpc.C07_bridge_plainEval",
    "Mpc.C07_adder_compute_model",
    "Mpc.C07_sub",
    "Mpc.C07_ksAdder_stages",
    "Mpc.C07_ksAdder",
    "Mpc.C07_ksAdder_too_few_stages_wrong",
    "Mpc.C07_ksSub_stages",
    "Mpc.C07_ksSub",
    "Mpc.C07_ksSub_too_few_stages_wrong",
    "Mpc.C07_ucmp",
    "Mpc.C07_intCmp_partial",
    "Mpc.C07_intCmp_equal_width",
    "Mpc.C07_intCmp_unequal_wrong",
    "Mpc.C07_intCmp_signpad",
    "Mpc.C07_eq",
    "Mpc.C07_neq",
    "Mpc.C07_mux",
    "Mpc.C07_band",
    "Mpc.C07_bor",
    "Mpc.C07_bxor",
    "Mpc.C07_bclr",
    "Mpc.C07_logical",
    "Mpc.C07_bittest",
    "Mpc.C07_index",
    "Mpc.C07_hamming",
    "Mpc.C07_arrayMult",
    "Mpc.C07_karatsuba",
    "Mpc.C07_mul_yao",
    "Mpc.C07_wallace",
    "Mpc.C07_mul_gmw",
    "Mpc.C07_udiv",
    "Mpc.C07_umod",
    "Mpc.C07_idiv_partial",
    "Mpc.C07_idiv_equal_width",
    "Mpc.C07_idiv_unequal_wrong",
    "Mpc.C07_imod_partial",
    "Mpc.C07_imod_equal_width",
    "Mpc.C07_imod_unequal_wrong",
    "Mpc.C07_idiv_signpad",
    "Mpc.C07_imod_signpad",
    "Mpc.C07_goldschmidt_correction",
    "Mpc.C07_goldschmidt_correction_old_wrong",
]

# builder called per SSA opcode in compiler/ssa/circuitgen.go (T2)
EXPECT_DISPATCH = {
    "Iadd,Uadd": "NewAdder", "Isub,Usub": "NewSubtractor", "Imult,Umult": "NewMultiplier",
    "Idiv": "NewIDivider", "Udiv": "NewUDivider", "Imod": "NewIDivider", "Umod": "NewUDivider",
    "Index": "NewIndex",
    "Ilt": "NewIntLtComparator", "Ult": "NewUintLtComparator", "Ile": "NewIntLeComparator",
    "Ule": "NewUintLeComparator", "Igt": "NewIntGtComparator", "Ugt": "NewUintGtComparator",
    "Ige": "NewIntGeComparator", "Uge": "NewUintGeComparator", "Eq": "NewEqComparator",
    "Neq": "NewNeqComparator", "Bts": "NewBitSetTest", "Btc": "NewBitClrTest", "And": "NewLogicalAND",
    "Or": "NewLogicalOR", "Band": "NewBinaryAND", "Bclr": "NewBinaryClear", "Bor": "NewBinaryOR",
    "Bxor": "NewBinaryXOR", "Phi": "NewMUX",
}

EXPECT_TARGET = {
    "NewAdder": "NewKoggeStoneAdder", "NewSubtractor": "NewKoggeStoneSubtractor",
    "NewMultiplier": "NewWallaceMultiplier", "NewUDivider": "NewUDividerGoldschmidtFast",
}


def dispatch_facts(ctx):
    src = vlib.repo_file("compiler/ssa/circuitgen.go")
    got = {}
    for m in re.finditer(r"\n\t\tcase ([A-Z][A-Za-z, ]*):\n(.*?)(?=\n\t\tcase |\n\t\tdefault:)", src, flags=re.S):
        ops = m.group(1).replace(" ", "")
        calls = re.findall(r"circuits\.(New\w+)\(", m.group(2))
        if calls:
            got[ops] = calls[0]
    ctx.fact("builder called per SSA opcode (circuitgen.go)", got, EXPECT_DISPATCH)
    tg = {}
    for fn, f in (("NewAdder", "circ_adder.go"), ("NewSubtractor", "circ_subtractor.go"),
                  ("NewMultiplier", "circ_multiplier.go"), ("NewUDivider", "circ_divider.go")):
        body = vlib.go_func_body("compiler/circuits/" + f, fn + r"\(") or ""
        m = re.search(r"Target == utils\.TargetGMW \{\s*return (\w+)\(", body)
        tg[fn] = m.group(1) if m else None
    ctx.fact("GMW target dispatch inside the builders", tg, EXPECT_TARGET)
    # Goldschmidt divider: its generator is tied gate for gate (T4), so the source text is advisory only:
    # repaired prologue/epilogue (dcb521a, 90ed06e) and remainder sign width (776d360)
    gd = vlib.go_func_body("compiler/circuits/circ_gmw_divider.go", r"NewUDividerGoldschmidtFast\(") or ""
    ctx.advise("NewUDividerGoldschmidtFast pads its operands first, keeps n+1 product bits / n+2 remainder bits, reads the "
               "sign from r[n+1] and connects q/r through muxResult (errors returned)",
               {"zeropad_first": bool(re.search(r"\{\s*a, b = cc\.ZeroPad\(a, b\)\s*n := len\(a\)", gd)),
                "qb_n_plus_1": "qb := qbLong[:n+1]" in gd,
                "r_n_plus_2": "r := cc.Calloc.Wires(types.Size(n + 2))" in gd,
                "isNeg_r_n_plus_1": "isNeg := r[n+1]" in gd,
                "muxResult_q": "muxResult(cc, []*Wire{isNeg}, qMinus1, qHigh, qFinal)" in gd,
                "muxResult_r": "return muxResult(cc, []*Wire{isNeg}, rPlusB, rHigh, rFinal)" in gd},
               {"zeropad_first": True, "qb_n_plus_1": True, "r_n_plus_2": True, "isNeg_r_n_plus_1": True,
                "muxResult_q": True, "muxResult_r": True})
    # ret wires results through ID gates
    m = re.search(r"case Ret:(.*?)case Circ:", src, flags=re.S)
    ctx.fact("`ret` passes every result wire through cc.ID to a fresh output wire",
             bool(m and "cc.ID(w, o)" in m.group(1) and "cc.Calloc.Wire()" in m.group(1)), True)


def threshold_fact(ctx):
    """multiplierArrayTresholds (Go map) == Lean `multiplierArrayThreshold` for widths < 275."""
    src = vlib.repo_file("compiler/circuits/circ_multiplier_params.go")
    table = {int(a): int(b) for a, b in re.findall(r"^\s+(\d+):\s+(\d+),", src, flags=re.M)}
    go = [table.get(n, 21) for n in range(1, 275)]
    ops = "".join("c07 thr %d\n" % n for n in range(1, 275))
    p = ctx.work + "/thr.ops"
    open(p, "w").write(ops)
    outp, rc = ctx.run_drv(p)
    lean = [int(x) if x.strip().isdigit() else -1 for x in open(outp).read().split("\n") if x.strip()]
    ctx.fact("Karatsuba array thresholds: Go table = Lean model for widths 1..274",
             hashlib.sha1(str(lean).encode()).hexdigest(), hashlib.sha1(str(go).encode()).hexdigest())


def goldschmidt_estimate_hypothesis(ctx):
    """Validated hypothesis `goldschmidt-estimate-within-one` of Mpc.C07_goldschmidt_correction: the quotient
    estimate of NewUDividerGoldschmidtFast (Lean generator `goldEstimate`, tied gate for gate by T4) differs from
    floor(a/b) by at most 1.  Exhaustive over all operand pairs up to a width bound, structured pairs above."""
    if ctx.tier == "thorough":
        exh, cnt = range(1, 12), 64000
        big = list(range(12, 41)) + [47, 48, 49, 56, 63, 64]
    else:
        exh, cnt = range(1, 10), 6400
        big = [10, 12, 16, 24, 31, 32, 33, 48, 64]
    ops = ["c07 corrstep old 7 127 13 10", "c07 corrstep new 7 127 13 10"]
    ops += ["c07 estexh %d" % n for n in exh]
    ops += ["c07 estrnd %d %d %d" % (n, cnt if n < 48 else cnt // 4, ctx.seed) for n in big]
    p = ctx.work + "/gold.ops"
    open(p, "w").write("\n".join(ops) + "\n")
    outp, rc = ctx.run_drv(p)
    lines = [x.strip() for x in open(outp).read().split("\n") if x.strip()]
    ctx.fact("goldschmidt_old_witness_127_13: correction step on 127/13 (width 7) with the estimate 10: "
             "pre-776d360 definition 11 rem 112, current definition 9 rem 10 (compiled Lean generators)",
             lines[:2], ["11 112", "9 10"])
    pairs = viol = 0
    lo = hi = 0
    widths = []
    for op, ln in zip(ops[2:], lines[2:]):
        kv = dict(x.split("=", 1) for x in ln.split(" ") if "=" in x)
        if "viol" not in kv:
            continue
        widths.append(int(kv["n"]))
        pairs += int(kv["pairs"])
        lo, hi = min(lo, int(kv["min"])), max(hi, int(kv["max"]))
        if int(kv["viol"]):
            viol += int(kv["viol"])
            ctx.fails.append({"sig": "c07-goldschmidt-estimate-off", "algo": "goldschmidt-estimate", "width": kv["n"],
                              "op": op, "example": kv.get("ex"), "min": kv["min"], "max": kv["max"],
                              "detail": "quotient estimate of NewUDividerGoldschmidtFast differs from floor(a/b) by more "
                                        "than 1: the hypothesis of Mpc.C07_goldschmidt_correction does not hold"})
    ctx.evaluations += pairs
    ctx.coverage["goldschmidt_estimate"] = {"hypothesis": "goldschmidt-estimate-within-one", "operand_pairs": pairs,
                                            "exhaustive_widths": [exh[0], exh[-1]], "structured_widths": big,
                                            "estimate_minus_floor_range": [lo, hi], "violations": viol, "driver_rc": rc}
    ctx.oblige("validated hypothesis goldschmidt-estimate-within-one evaluated on every requested width",
               rc == 0 and len(widths) == len(ops) - 2 and pairs > 100000, "\n".join(lines)[-2000:])


def run(ctx):
    ctx.prove("MpcVerif.Props.C07", THEOREMS)
    if ctx.tier == "thorough":
        ctx.leanchecker("MpcVerif.Props.C07")
    ctx.build_drv()
    dispatch_facts(ctx)
    threshold_fact(ctx)
    goldschmidt_estimate_hypothesis(ctx)
    if ctx.build_hx():
        # T4/T3 correspondence: canonical cc.Gates of the real builder vs the
        # Lean generator; sample evaluations; compiled circuits through the
        # Lean evaluator.
        ops, out, meta = ctx.run_hx("corr", 0, seed=ctx.seed)
        ctx.absorb_meta(meta, prefix="corr_")
        ctx.correspond("builders: gate lists (T4) and evaluations (T3)", ops, out)
        for line in open(ops, errors="replace"):
            f = line.split(" ", 10)
            if len(f) > 9 and f[1] == "gen":
                ctx.distinct.add(" ".join(f[2:10]))
        # implementation-side oracle
        ops, out, meta = ctx.run_hx("oracle", 0, seed=ctx.seed)
        ctx.absorb_meta(meta, prefix="oracle_")
        c = meta.get("counters", {})
        ctx.evaluations += c.get("evaluations", 0)
        ctx.coverage["oracle_cases"] = c.get("cases", 0)
        ctx.coverage["oracle_exhaustive_cases"] = c.get("exhaustive_cases", 0)
        ctx.oblige("oracle ran (cases > 1000, evaluations > 10^6)",
                   c.get("cases", 0) > 1000 and c.get("evaluations", 0) > 10 ** 6, str(c)[:500])
        if ctx.broken and not [f for f in ctx.fails if not ctx.is_known(f)]:
            # widened search for a concrete failing input: other seeds for the
            # sampled part of the oracle
            for s in range(ctx.seed + 7000, ctx.seed + 7003):
                ops, out, meta = ctx.run_hx("oracle", 0, seed=s, tag="-widen", extra_args=["-tier", "quick"])
                ctx.absorb_meta(meta, prefix="widen_")
                if [f for f in ctx.fails if not ctx.is_known(f)]:
                    break
    ctx.coverage["rule"] = (
        "oracle: every builder x {Yao,GMW} x operand widths 1..E (E=5 quick + equal widths 6..8, E=8 thorough) x result "
        "widths {1,max-1,max,max+1,2max,2max+1,2max+3} with ALL operand values, plus boundary-biased samples at widths up "
        "to 130 (Karatsuba thresholds, 2^k, 2^k+-1); with and without the ZeroWire/OneWire prologue; with and without "
        "ConstPropagate/ShortCircuitXORZero/Prune; every compiled circuit is also evaluated by Circuit.Compute on "
        "sampled inputs and its raw cc.Gates in list order. distinct = distinct (builder,target,prologue,widths,par) "
        "instantiations whose full canonical gate list was compared with the Lean generator")
    ctx.assumptions += [
        "wires are numbered by first occurrence in cc.Gates; wire pointer identity = number identity",
        "Compile (wire id assignment, BFS order, GMW level sort) is validated by evaluation only, not modelled",
        "the theorems are about the gate list in emission order under sequential evaluation",
    ]
    ctx.assumptions += [
        "signed builders: the specification reads each operand as two's complement at ITS OWN width; the signed "
        "division/modulo specification is the one fixed by testsuite/lang/divi.mpcl, modi.mpcl (quotient truncates toward "
        "zero, remainder |a| mod |b|)",
        "Karatsuba limits below 3 are excluded (the Go recursion does not terminate; the compiler uses limits >= 8)",
    ]
    ctx.assumptions += [
        "VALIDATED HYPOTHESIS goldschmidt-estimate-within-one: the quotient estimate of NewUDividerGoldschmidtFast is within "
        "+-1 of floor(a/b). Not proved (needs a fixed-point error analysis of the seed ROM and the iterations). Evaluated on "
        "every run on the Lean generator goldEstimate (tied gate for gate with the Go code by T4 at the correspondence "
        "widths): ALL operand pairs of widths 1..9 (quick) / 1..11 (thorough), structured operand pairs (random bit lengths, "
        "2^k, 2^k+-1, all-ones, small divisors, m*b+{0,b-1,-1}, b in {a-1,a,a+1}) at widths up to 64. "
        "Mpc.C07_goldschmidt_correction proves the correction step exact for every width under exactly this hypothesis; the "
        "whole divider is additionally evaluated against math/big by the oracle",
    ]
    return ctx.finish(
        "Theorems (Props/C07.lean, all operand/result widths, all values, both prologue variants): ripple adder and "
        "subtractor; Kogge-Stone adder and subtractor (prefix-network interval invariant; too few stages shown wrong); "
        "unsigned comparators; signed comparators AS IN THE CODE (cc.ZeroPad: exact for equal widths, zero-extension "
        "semantics otherwise, negation witness -1 (2 bits) < 3 (3 bits) answered false); Eq/Neq; MUX; bitwise "
        "AND/OR/XOR/Clear; logical AND/OR; bit tests; NewIndex; Hamming (both targets); array multiplier "
        "(row-accumulation invariant); Karatsuba for every threshold >= 3 and NewMultiplier on the Yao target; Wallace "
        "multiplier (column-sum invariant) and NewMultiplier on the GMW target; long divider (restoring-division "
        "invariant, non-zero divisor, EVERY result width since the zero-fill fix cf9e510); NewIDivider on the Yao target AS "
        "IN THE CODE (exact for equal operand widths and every result width: quotient truncates toward zero, remainder "
        "|a| mod |b|; zero-extension semantics for unequal operand widths, negation witnesses 5 / -2 = 0 and 5 % -2 = 5 on 4- and 3-bit operands); "
        "Goldschmidt divider: correction step exact for every width IF the estimate is within +-1 (hypothesis stated in the "
        "theorem; validated, see assumptions), old-definition witness for the defect fixed by 776d360; bridge lemma to the "
        "C01 plain evaluator. CONDITIONAL results about the PROPOSED REPAIR (cc.SignPad variants of the generators, "
        "hooks/c07-intcomparator-signpad.patch, hooks/c07-idivider-signpad.patch, NOT the code; the repair was withdrawn "
        "because constants carry no sign): C07_intCmp_signpad, C07_idiv_signpad, C07_imod_signpad hold for all operand "
        "widths. "
        "Tie T4: for every modelled builder (adders, subtractors incl. Kogge-Stone, array/Karatsuba/Wallace multipliers, "
        "long divider, Goldschmidt divider, signed divider on both targets, comparators, MUX, index, bitwise, Hamming) the "
        "Lean generator reproduces the real cc.Gates gate for gate (canonical first-occurrence numbering) on all width "
        "triples listed under coverage; T3: sample evaluations and the Lean Circuit.compute on Go-compiled circuits "
        "(restoring / array dividers: evaluator only). Oracle: real builder -> Compile -> bit-sliced evaluation vs "
        "math/big, exhaustive at small widths, sampled to 130 bits, cross-checked with Circuit.Compute and with the raw "
        "cc.Gates order. Known findings are matched on (algorithm, width relation, failure class) so other failures of the "
        "same builder are still reported.")

"""C07 Arithmetic and logic circuit builders are exact for every width."""
import hashlib
import json
import os
import re
import sys

import vlib

LEVEL = "proof"

THEOREMS = [
    "Mpc.C07_adder",
    "Mpc.C07_bridge_plainEval",
    "Mpc.C07_adder_compute_model",
    "Mpc.C07_sub",
    "Mpc.C07_ksAdder_stages",
    "Mpc.C07_ksAdder",
    "Mpc.C07_ksAdder_too_few_stages_wrong",
    "Mpc.C07_ksSub_stages",
    "Mpc.C07_ksSub",
    "Mpc.C07_ksSub_too_few_stages_wrong",
    "Mpc.C07_ucmp",
    "Mpc.C07_intCmp_partial",
    "Mpc.C07_intCmp_equal_width",
    "Mpc.C07_intCmp_unequal_wrong",
    "Mpc.C07_intCmp_signpad",
    "Mpc.C07_eq",
    "Mpc.C07_neq",
    "Mpc.C07_mux",
    "Mpc.C07_band",
    "Mpc.C07_bor",
    "Mpc.C07_bxor",
    "Mpc.C07_bclr",
    "Mpc.C07_logical",
    "Mpc.C07_bittest",
    "Mpc.C07_index",
    "Mpc.C07_hamming",
    "Mpc.C07_arrayMult",
    "Mpc.C07_karatsuba",
    "Mpc.C07_mul_yao",
    "Mpc.C07_wallace",
    "Mpc.C07_mul_gmw",
    "Mpc.C07_udiv",
    "Mpc.C07_umod",
    "Mpc.C07_idiv_partial",
    "Mpc.C07_idiv_equal_width",
    "Mpc.C07_idiv_unequal_wrong",
    "Mpc.C07_imod_partial",
    "Mpc.C07_imod_equal_width",
    "Mpc.C07_imod_unequal_wrong",
    "Mpc.C07_idiv_signpad",
    "Mpc.C07_imod_signpad",
    "Mpc.C07_goldschmidt_correction",
    "Mpc.C07_goldschmidt_correction_old_wrong",
    # histories of builder calls on ONE circuits.Compiler
    "Mpc.C07_history_compose",
    "Mpc.C07_history",
    "Mpc.C07_history_harness",
    "Mpc.C07_history_udiv_udiv",
    "Mpc.C07_history_add_then_udiv",
    "Mpc.C07_history_divider_pair",
    "Mpc.C07_history_goldschmidt_pair",
    # operand shapes: operand buses of ANY existing wires (constant wires, repeated wires, one bus twice)
    "Mpc.C07_operand_shapes",
    "Mpc.C07_builders_any_operand_wires_eq",
    "Mpc.C07_builders_any_operand_wires_neq",
    "Mpc.C07_builders_any_operand_wires_ucmp",
    "Mpc.C07_builders_any_operand_wires_icmp",
    "Mpc.C07_builders_any_operand_wires_adder",
    "Mpc.C07_builders_any_operand_wires_sub",
    "Mpc.C07_builders_any_operand_wires_mux",
    "Mpc.C07_builders_any_operand_wires_mul",
    "Mpc.C07_builders_any_operand_wires_udiv",
    "Mpc.C07_builders_any_operand_wires_bits",
    "Mpc.C07_builders_any_operand_wires_hamming",
    "Mpc.C07_shaped_call",
    "Mpc.C07_shaped_call3",
    "Mpc.C07_eq_neq_zext_vs_constant",
]

# builder called per SSA opcode in compiler/ssa/circuitgen.go (T2)
EXPECT_DISPATCH = {
    "Iadd,Uadd": "NewAdder", "Isub,Usub": "NewSubtractor", "Imult,Umult": "NewMultiplier",
    "Idiv": "NewIDivider", "Udiv": "NewUDivider", "Imod": "NewIDivider", "Umod": "NewUDivider",
    "Index": "NewIndex",
    "Ilt": "NewIntLtComparator", "Ult": "NewUintLtComparator", "Ile": "NewIntLeComparator",
    "Ule": "NewUintLeComparator", "Igt": "NewIntGtComparator", "Ugt": "NewUintGtComparator",
    "Ige": "NewIntGeComparator", "Uge": "NewUintGeComparator", "Eq": "NewEqComparator",
    "Neq": "NewNeqComparator", "Bts": "NewBitSetTest", "Btc": "NewBitClrTest", "And": "NewLogicalAND",
    "Or": "NewLogicalOR", "Band": "NewBinaryAND", "Bclr": "NewBinaryClear", "Bor": "NewBinaryOR",
    "Bxor": "NewBinaryXOR", "Phi": "NewMUX",
}

EXPECT_TARGET = {
    "NewAdder": "NewKoggeStoneAdder", "NewSubtractor": "NewKoggeStoneSubtractor",
    "NewMultiplier": "NewWallaceMultiplier", "NewUDivider": "NewUDividerGoldschmidtFast",
}


def dispatch_facts(ctx):
    src = vlib.repo_file("compiler/ssa/circuitgen.go")
    got = {}
    for m in re.finditer(r"\n\t\tcase ([A-Z][A-Za-z, ]*):\n(.*?)(?=\n\t\tcase |\n\t\tdefault:)", src, flags=re.S):
        ops = m.group(1).replace(" ", "")
        calls = re.findall(r"circuits\.(New\w+)\(", m.group(2))
        if calls:
            got[ops] = calls[0]
    ctx.fact("builder called per SSA opcode (circuitgen.go)", got, EXPECT_DISPATCH)
    tg = {}
    for fn, f in (("NewAdder", "circ_adder.go"), ("NewSubtractor", "circ_subtractor.go"),
                  ("NewMultiplier", "circ_multiplier.go"), ("NewUDivider", "circ_divider.go")):
        body = vlib.go_func_body("compiler/circuits/" + f, fn + r"\(") or ""
        m = re.search(r"Target == utils\.TargetGMW \{\s*return (\w+)\(", body)
        tg[fn] = m.group(1) if m else None
    ctx.fact("GMW target dispatch inside the builders", tg, EXPECT_TARGET)
    # Goldschmidt divider: its generator is tied gate for gate (T4), so the source text is advisory only:
    # repaired prologue/epilogue (dcb521a, 90ed06e) and remainder sign width (776d360)
    gd = vlib.go_func_body("compiler/circuits/circ_gmw_divider.go", r"NewUDividerGoldschmidtFast\(") or ""
    ctx.advise("NewUDividerGoldschmidtFast pads its operands first, keeps n+1 product bits / n+2 remainder bits, reads the "
               "sign from r[n+1] and connects q/r through muxResult (errors returned)",
               {"zeropad_first": bool(re.search(r"\{\s*a, b = cc\.ZeroPad\(a, b\)\s*n := len\(a\)", gd)),
                "qb_n_plus_1": "qb := qbLong[:n+1]" in gd,
                "r_n_plus_2": "r := cc.Calloc.Wires(types.Size(n + 2))" in gd,
                "isNeg_r_n_plus_1": "isNeg := r[n+1]" in gd,
                "muxResult_q": "muxResult(cc, []*Wire{isNeg}, qMinus1, qHigh, qFinal)" in gd,
                "muxResult_r": "return muxResult(cc, []*Wire{isNeg}, rPlusB, rHigh, rFinal)" in gd},
               {"zeropad_first": True, "qb_n_plus_1": True, "r_n_plus_2": True, "isNeg_r_n_plus_1": True,
                "muxResult_q": True, "muxResult_r": True})
    # ret wires results through ID gates
    m = re.search(r"case Ret:(.*?)case Circ:", src, flags=re.S)
    ctx.fact("`ret` passes every result wire through cc.ID to a fresh output wire",
             bool(m and "cc.ID(w, o)" in m.group(1) and "cc.Calloc.Wire()" in m.group(1)), True)


def threshold_fact(ctx):
    """multiplierArrayTresholds (Go map) == Lean `multiplierArrayThreshold` for widths < 275."""
    src = vlib.repo_file("compiler/circuits/circ_multiplier_params.go")
    table = {int(a): int(b) for a, b in re.findall(r"^\s+(\d+):\s+(\d+),", src, flags=re.M)}
    go = [table.get(n, 21) for n in range(1, 275)]
    ops = "".join("c07 thr %d\n" % n for n in range(1, 275))
    p = ctx.work + "/thr.ops"
    open(p, "w").write(ops)
    outp, rc = ctx.run_drv(p)
    lean = [int(x) if x.strip().isdigit() else -1 for x in open(outp).read().split("\n") if x.strip()]
    ctx.fact("Karatsuba array thresholds: Go table = Lean model for widths 1..274",
             hashlib.sha1(str(lean).encode()).hexdigest(), hashlib.sha1(str(go).encode()).hexdigest())


def goldschmidt_estimate_hypothesis(ctx):
    """Validated hypothesis `goldschmidt-estimate-within-one` of Mpc.C07_goldschmidt_correction: the quotient
    estimate of NewUDividerGoldschmidtFast (Lean generator `goldEstimate`, tied gate for gate by T4) differs from
    floor(a/b) by at most 1.  Exhaustive over all operand pairs up to a width bound, structured pairs above."""
    if ctx.tier == "thorough":
        exh, cnt = range(1, 12), 64000
        big = list(range(12, 41)) + [47, 48, 49, 56, 63, 64]
    else:
        exh, cnt = range(1, 10), 6400
        big = [10, 12, 16, 24, 31, 32, 33, 48, 64]
    ops = ["c07 corrstep old 7 127 13 10", "c07 corrstep new 7 127 13 10"]
    ops += ["c07 estexh %d" % n for n in exh]
    ops += ["c07 estrnd %d %d %d" % (n, cnt if n < 48 else cnt // 4, ctx.seed) for n in big]
    # the same hypothesis from NON-FRESH states (hypothesis hest2 of Mpc.C07_history_divider_pair /
    # C07_history_goldschmidt_pair): the estimate of a second divider built after a complete first divider on the
    # same state; all operand pairs of the second divider at widths <= 6, structured above, for several operand pairs
    # of the first
    hist_pairs = [(4, 4), (5, 5), (6, 6), (4, 6), (6, 4), (9, 5), (8, 8), (9, 9), (8, 9), (9, 8), (9, 12), (16, 9)]
    if ctx.tier == "thorough":
        hist_pairs += [(n, n) for n in (1, 2, 3, 7, 10, 12, 16, 17)] + [(16, 17), (17, 16), (32, 9), (9, 32), (33, 17)]
    ops += ["c07 esthist %d %d %d %d" % (a, b, 6 if ctx.tier == "quick" else 16, ctx.seed) for a, b in hist_pairs]
    p = ctx.work + "/gold.ops"
    open(p, "w").write("\n".join(ops) + "\n")
    outp, rc = ctx.run_drv(p)
    lines = [x.strip() for x in open(outp).read().split("\n") if x.strip()]
    ctx.fact("goldschmidt_old_witness_127_13: correction step on 127/13 (width 7) with the estimate 10: "
             "pre-776d360 definition 11 rem 112, current definition 9 rem 10 (compiled Lean generators)",
             lines[:2], ["11 112", "9 10"])
    pairs = viol = 0
    lo = hi = 0
    widths = []
    for op, ln in zip(ops[2:], lines[2:]):
        kv = dict(x.split("=", 1) for x in ln.split(" ") if "=" in x)
        if "viol" not in kv:
            continue
        widths.append(int(kv["n"]))
        pairs += int(kv["pairs"])
        lo, hi = min(lo, int(kv["min"])), max(hi, int(kv["max"]))
        if int(kv["viol"]):
            viol += int(kv["viol"])
            ctx.fails.append({"sig": "c07-goldschmidt-estimate-off", "algo": "goldschmidt-estimate", "width": kv["n"],
                              "op": op, "example": kv.get("ex"), "min": kv["min"], "max": kv["max"],
                              "detail": "quotient estimate of NewUDividerGoldschmidtFast differs from floor(a/b) by more "
                                        "than 1: the hypothesis of Mpc.C07_goldschmidt_correction does not hold"})
    ctx.evaluations += pairs
    ctx.coverage["goldschmidt_estimate"] = {"hypothesis": "goldschmidt-estimate-within-one", "operand_pairs": pairs,
                                            "exhaustive_widths": [exh[0], exh[-1]], "structured_widths": big,
                                            "second_divider_of_a_history_widths(first,second)": hist_pairs,
                                            "estimate_minus_floor_range": [lo, hi], "violations": viol, "driver_rc": rc}
    ctx.oblige("validated hypothesis goldschmidt-estimate-within-one evaluated on every requested width",
               rc == 0 and len(widths) == len(ops) - 2 and pairs > 100000, "\n".join(lines)[-2000:])


def goldschmidt_pair_fact(ctx):
    """Executed counterpart of the non-vacuity example of Mpc.C07_history_goldschmidt_pair at a width where the seed ROM
    is in use: two Goldschmidt dividers generated on ONE builder state, 13 / 3 = 4 and then 14 / 5 = 2."""
    p = ctx.work + "/goldpair.ops"
    open(p, "w").write("c07 hgr 1 1 4,4,4,4 udiv,4,0,b0.0.4,b1.0.4,-|udiv,4,0,b2.0.4,b3.0.4,- 1011110001111010\n")
    outp, rc = ctx.run_drv(p)
    got = open(outp).read().strip().split(" | ")[-1]
    ctx.fact("goldschmidt_pair_on_one_state: two Goldschmidt dividers on one builder state, 4-bit operands (seed ROM in use): "
             "13 / 3 = 4, then 14 / 5 = 2 (compiled Lean generators)", got, "00100100")


def replay_exact(ctx):
    """`bin/check C07 --replay F`: F holds one case (a history of builder calls on one Compiler with its input values,
    an MPCL program with its inputs, or a single builder call with its operands); run exactly that case on the real
    code before the seeded run that regenerates it."""
    if "--replay" not in sys.argv:
        return
    try:
        rp = sys.argv[sys.argv.index("--replay") + 1]
        rp = rp if os.path.isabs(rp) else os.path.join(vlib.VERIF, rp)
        f = json.load(open(rp)).get("failure") or {}
    except Exception:
        return
    if not (f.get("kind") in ("history", "program") or f.get("replay")):
        return
    rc, log = vlib.sh([ctx.hx, "replay", rp], env=vlib.GOENV, timeout=600)
    print("replayed case of %s (%s):\n%s" % (os.path.basename(rp), f.get("sig"), vlib.indent(log[-2500:])))
    if rc == 1:
        g = dict(f)
        g["found_by"] = "exact replay of " + os.path.basename(rp)
        ctx.fails.append(g)


def histories(ctx):
    """Builder HISTORIES on one circuits.Compiler (the property is about the builders as the compiler uses them: one
    Compiler per program, many builder calls on it) and their compiled-program form."""
    ops, out, meta = ctx.run_hx("hist", 0, seed=ctx.seed)
    ctx.absorb_meta(meta, prefix="hist_")
    ctx.correspond("histories of 1..5 builder calls on ONE Compiler, operand buses of value, constant and repeated wires: gate lists (T4) and evaluations (T3)", ops, out)
    for line in open(ops, errors="replace"):
        f = line.split(" ", 6)
        if len(f) > 5 and f[1] == "hgr":
            ctx.distinct.add("hist " + " ".join(f[2:6]))
    c = meta.get("counters", {})
    ctx.evaluations += c.get("evaluations", 0)
    pairs = sorted(k[len("hist_pair_"):] for k in c if k.startswith("hist_pair_"))
    ctx.coverage["histories"] = {
        "histories": c.get("histories", 0), "by_class": {k[len("hist_class_"):]: v for k, v in c.items() if k.startswith("hist_class_")},
        "by_length": {k[len("hist_len_"):]: v for k, v in c.items() if k.startswith("hist_len_")},
        "Yao": c.get("hist_Yao", 0), "GMW": c.get("hist_GMW", 0),
        "calls_fed_by_earlier_results": c.get("hist_calls_fed_by_earlier_results", 0),
        "distinct_consecutive_builder_pairs_x_target": len(pairs),
        "calls_with_shaped_operands": c.get("hist_calls_with_shaped_operands", 0),
        "calls_with_constant_wires_in_an_operand": c.get("hist_calls_with_constant_wires", 0),
        "calls_x_op_x": c.get("hist_calls_x_op_x", 0),
        "builder_x_target_with_constant_operand_wires": len([k for k in c if k.startswith("hist_const_call_")]),
        "fully_exhaustive": c.get("hist_exhaustive", 0), "t4_lines": c.get("hist_t4_lines", 0),
        "t4_gates": c.get("hist_t4_gates", 0), "call_evaluations": c.get("evaluations", 0)}
    names = sorted(k[len("hist_call_"):] for k in c if k.startswith("hist_call_"))
    missing = [n + "/" + t for n in names for t in ("Yao", "GMW") if not c.get("hist_const_call_%s_%s" % (n, t))]
    ctx.oblige("operand shapes: every builder of the harness received operand buses holding the Compiler's constant wires on "
               "both targets (calls with constant wires > 3000, x op x > 100)",
               len(names) >= 38 and not missing and c.get("hist_calls_with_constant_wires", 0) > 3000
               and c.get("hist_calls_x_op_x", 0) > 100,
               "builders=%d, without constant operand wires: %s, calls with constant wires=%d, x op x=%d" % (
                   len(names), missing, c.get("hist_calls_with_constant_wires", 0), c.get("hist_calls_x_op_x", 0)))
    ctx.oblige("history harness ran (histories > 1000, each class present, both targets, divider-after-divider on GMW, "
               "T4 lines > 1000)",
               c.get("histories", 0) > 1000 and all(c.get("hist_class_" + k, 0) > 0 for k in ("pair", "same", "chain", "rand", "wide", "shape"))
               and c.get("hist_Yao", 0) > 100 and c.get("hist_GMW", 0) > 100 and c.get("hist_pair_udiv>udiv_GMW", 0) > 5
               and c.get("hist_t4_lines", 0) > 1000 and c.get("hist_calls_fed_by_earlier_results", 0) > 300, str(c)[:600])
    # compiled programs: several operations in ONE MPCL function
    ops, out, meta = ctx.run_hx("prog", 0, seed=ctx.seed)
    ctx.absorb_meta(meta, prefix="prog_")
    ctx.correspond("MPCL programs with several operations in one function: compiled circuit through the Lean evaluator (T3)",
                   ops, out)
    c = meta.get("counters", {})
    ctx.evaluations += c.get("evaluations", 0)
    ctx.coverage["compiled_programs"] = {
        "programs": c.get("programs", 0), "by_class": {k[len("prog_class_"):]: v for k, v in c.items() if k.startswith("prog_class_")},
        "Yao": c.get("prog_target_0", 0), "GMW": c.get("prog_target_1", 0),
        "statements_fed_by_earlier_results": c.get("prog_statements_fed_by_earlier_results", 0),
        "statements_with_shaped_operands": c.get("prog_statements_with_shaped_operands", 0),
        "operand_forms": {k[len("prog_form_"):]: v for k, v in c.items() if k.startswith("prog_form_")},
        "statements_x_op_x": c.get("prog_statements_x_op_x", 0),
        "statement_evaluations": c.get("evaluations", 0), "evalc_lines": c.get("prog_evalc_lines", 0)}
    ctx.oblige("program harness ran (programs > 500, both targets, two divisions in one function, statements whose operands "
               "are constants / shifts / casts / x op x)",
               c.get("programs", 0) > 500 and c.get("prog_target_0", 0) > 100 and c.get("prog_target_1", 0) > 100
               and c.get("prog_pair_/_then_/", 0) > 5 and c.get("prog_statements_with_shaped_operands", 0) > 1000
               and all(c.get("prog_form_" + k, 0) > 50 for k in ("const", "shr", "shl", "zx", "zxshl", "tr"))
               and c.get("prog_statements_x_op_x", 0) > 50, str(c)[:600])


def run(ctx):
    ctx.prove("MpcVerif.Props.C07", THEOREMS)
    if ctx.tier == "thorough":
        ctx.leanchecker("MpcVerif.Props.C07")
    ctx.build_drv()
    dispatch_facts(ctx)
    threshold_fact(ctx)
    goldschmidt_estimate_hypothesis(ctx)
    goldschmidt_pair_fact(ctx)
    if ctx.build_hx():
        replay_exact(ctx)
        histories(ctx)
        # T4/T3 correspondence: canonical cc.Gates of the real builder vs the
        # Lean generator; sample evaluations; compiled circuits through the
        # Lean evaluator.
        ops, out, meta = ctx.run_hx("corr", 0, seed=ctx.seed)
        ctx.absorb_meta(meta, prefix="corr_")
        ctx.correspond("builders: gate lists (T4) and evaluations (T3)", ops, out)
        for line in open(ops, errors="replace"):
            f = line.split(" ", 10)
            if len(f) > 9 and f[1] == "gen":
                ctx.distinct.add(" ".join(f[2:10]))
        # implementation-side oracle
        ops, out, meta = ctx.run_hx("oracle", 0, seed=ctx.seed)
        ctx.absorb_meta(meta, prefix="oracle_")
        c = meta.get("counters", {})
        ctx.evaluations += c.get("evaluations", 0)
        ctx.coverage["oracle_cases"] = c.get("cases", 0)
        ctx.coverage["oracle_exhaustive_cases"] = c.get("exhaustive_cases", 0)
        ctx.oblige("oracle ran (cases > 1000, evaluations > 10^6)",
                   c.get("cases", 0) > 1000 and c.get("evaluations", 0) > 10 ** 6, str(c)[:500])
        if ctx.broken and not [f for f in ctx.fails if not ctx.is_known(f)]:
            # widened search for a concrete failing input: other seeds for the
            # sampled part of the oracle
            for s in range(ctx.seed + 7000, ctx.seed + 7003):
                ops, out, meta = ctx.run_hx("oracle", 0, seed=s, tag="-widen", extra_args=["-tier", "quick"])
                ctx.absorb_meta(meta, prefix="widen_")
                if [f for f in ctx.fails if not ctx.is_known(f)]:
                    break
                # more random histories / programs
                ops, out, meta = ctx.run_hx("hist", 1500, seed=s, tag="-widen", extra_args=["-extra", "only=rand"])
                ctx.absorb_meta(meta, prefix="widen_hist_")
                if [f for f in ctx.fails if not ctx.is_known(f)]:
                    break
                # operand shapes with other seed-derived constants
                ops, out, meta = ctx.run_hx("hist", 1, seed=s, tag="-widen", extra_args=["-extra", "only=shape"])
                ctx.absorb_meta(meta, prefix="widen_shape_")
                if [f for f in ctx.fails if not ctx.is_known(f)]:
                    break
    ctx.coverage["rule"] = (
        "HISTORIES (the property is about the builders as the compiler uses them: one circuits.Compiler per program, many "
        "builder calls on it): sequences of 2..5 builder calls on ONE Compiler x {Yao,GMW}: every ordered pair of builder "
        "kinds on independent operands; the same kind 2..5 times at equal and different widths around the ROM / iteration "
        "boundaries of the GMW divider (4..9, 16, 17; thorough to 33 and 64), Karatsuba thresholds, 2^k, 2^k+-1; chains in "
        "which results of earlier calls feed later ones (op2(op1(a,b),c), op2(c,op1(a,b)), compare-and-select, the division "
        "identity q*b+r==a in 5 calls, double-width product divided again, shared operands); random histories (operands "
        "from new inputs, re-used inputs and slices of earlier results); wide chains at 9..33 bits. EVERY call of every "
        "history is judged against math/big on the operand values it actually received (trailing input buses exhaustive up "
        "to 10 bits quick / 12 bits thorough, times 6 structured value combinations of the other buses); T4 compares the real cc.Gates of the "
        "whole history with the Lean generators run in the same sequence from the same state (do r1 <- b1; r2 <- b2 ...). "
        "Compiled-program form: MPCL functions with 2..5 statements (/ % * + - & | ^ and the six comparisons, uintN and intN, "
        "statements fed by earlier results) compiled for both targets, every statement judged, compiled circuit through the "
        "Lean evaluator; class cshape: for every operator, uintN and intN, both targets, statements whose operands are "
        "constants (inside and, in 2N-bit statements, OUTSIDE the range of the other operand), shifts by constants, casts to "
        "the wider type (zero / sign extension), shifted casts, truncating casts of earlier results and x op x. Signed kinds take equal operand widths in histories (the open zero-extension findings are judged "
        "by the single-call oracle). "
        "SINGLE CALLS: oracle: every builder x {Yao,GMW} x operand widths 1..E (E=5 quick + equal widths 6..8, E=8 thorough) x result "
        "widths {1,max-1,max,max+1,2max,2max+1,2max+3} with ALL operand values, plus boundary-biased samples at widths up "
        "to 130 (Karatsuba thresholds, 2^k, 2^k+-1); with and without the ZeroWire/OneWire prologue; with and without "
        "ConstPropagate/ShortCircuitXORZero/Prune; every compiled circuit is also evaluated by Circuit.Compute on "
        "sampled inputs and its raw cc.Gates in list order. distinct = distinct (builder,target,prologue,widths,par) "
        "instantiations whose full canonical gate list was compared with the Lean generator, plus distinct histories whose "
        "whole gate list was compared")
    ctx.assumptions += [
        "the state of circuits.Compiler that builders can observe is the gate list and the invI0/zero/one wire caches (Lean "
        "`St`); NOT assumed silently: it is what the history tie (T4 on sequences of calls on one Compiler) and the history "
        "oracle test on every run for the generated histories",
        "wires are numbered by first occurrence in cc.Gates; wire pointer identity = number identity",
        "Compile (wire id assignment, BFS order, GMW level sort) is validated by evaluation only, not modelled",
        "the theorems are about the gate list in emission order under sequential evaluation",
    ]
    ctx.assumptions += [
        "signed builders: the specification reads each operand as two's complement at ITS OWN width; the signed "
        "division/modulo specification is the one fixed by testsuite/lang/divi.mpcl, modi.mpcl (quotient truncates toward "
        "zero, remainder |a| mod |b|)",
        "Karatsuba limits below 3 are excluded (the Go recursion does not terminate; the compiler uses limits >= 8)",
    ]
    ctx.assumptions += [
        "VALIDATED HYPOTHESIS goldschmidt-estimate-within-one: the quotient estimate of NewUDividerGoldschmidtFast is within "
        "+-1 of floor(a/b). Not proved (needs a fixed-point error analysis of the seed ROM and the iterations). Evaluated on "
        "every run on the Lean generator goldEstimate (tied gate for gate with the Go code by T4 at the correspondence "
        "widths): ALL operand pairs of widths 1..9 (quick) / 1..11 (thorough), structured operand pairs (random bit lengths, "
        "2^k, 2^k+-1, all-ones, small divisors, m*b+{0,b-1,-1}, b in {a-1,a,a+1}) at widths up to 64. "
        "Mpc.C07_goldschmidt_correction proves the correction step exact for every width under exactly this hypothesis; the "
        "whole divider is additionally evaluated against math/big by the oracle. The same hypothesis FROM NON-FRESH STATES "
        "(hest2 of Mpc.C07_history_divider_pair / C07_history_goldschmidt_pair: the estimate of a divider built after an "
        "earlier divider on the same state) is evaluated by the driver op esthist: all operand pairs of the second divider at "
        "widths <= 6, structured pairs above, for several operand pairs of the first; it also assumes that goldEstimate "
        "extends the state well-formedly (loop-based generator, not proved; its gate list is tied by T4)",
    ]
    return ctx.finish(
        "OPERAND SHAPES: the _spec lemmas ask of operand wires only that they exist (Bnd) and speak about the values they carry "
        "(busVal); stated explicitly as Mpc.C07_builders_any_operand_wires_{eq,neq,ucmp,icmp,adder,sub,mux,mul,udiv,bits,"
        "hamming} (any wire ids below s.next: inputs, gate outputs, the constant wires, the same wire several times), "
        "Mpc.C07_operand_shapes (an operand made of bus slices and constant wires, the constant wires created on demand: "
        "wires exist, values = opndVal), Mpc.C07_shaped_call / C07_shaped_call3 (a builder call on such operands is a sound "
        "call of a history, so C07_history covers them), instance Mpc.C07_eq_neq_zext_vs_constant (uintN(a) == c is false "
        "and uintN(a) != c is true for every a when c has a 1 outside the range of a, every width, with and without "
        "prologue); tie: class shape of the history harness and class cshape of the program harness. "
        "HISTORIES of builder calls on one Compiler: Mpc.C07_history_compose (sequential composition keeps both "
        "postconditions: frame property), Mpc.C07_history (fold over a history of any length: every call sound from any "
        "state => every call's postcondition holds in the final state, operands = inputs or earlier results), "
        "Mpc.C07_history_harness (the same on the harness circuit), instances divider-after-divider (long divider, "
        "unconditional), adder-then-divider with the divisor fed by the sum, Goldschmidt-after-Goldschmidt (conditional on "
        "the estimate hypothesis at both states); tie T4 and oracle on generated histories and on compiled MPCL programs with "
        "several operations in one function. "
        "Theorems (Props/C07.lean, all operand/result widths, all values, both prologue variants): ripple adder and "
        "subtractor; Kogge-Stone adder and subtractor (prefix-network interval invariant; too few stages shown wrong); "
        "unsigned comparators; signed comparators AS IN THE CODE (cc.ZeroPad: exact for equal widths, zero-extension "
        "semantics otherwise, negation witness -1 (2 bits) < 3 (3 bits) answered false); Eq/Neq; MUX; bitwise "
        "AND/OR/XOR/Clear; logical AND/OR; bit tests; NewIndex; Hamming (both targets); array multiplier "
        "(row-accumulation invariant); Karatsuba for every threshold >= 3 and NewMultiplier on the Yao target; Wallace "
        "multiplier (column-sum invariant) and NewMultiplier on the GMW target; long divider (restoring-division "
        "invariant, non-zero divisor, EVERY result width since the zero-fill fix cf9e510); NewIDivider on the Yao target AS "
        "IN THE CODE (exact for equal operand widths and every result width: quotient truncates toward zero, remainder "
        "|a| mod |b|; zero-extension semantics for unequal operand widths, negation witnesses 5 / -2 = 0 and 5 % -2 = 5 on 4- and 3-bit operands); "
        "Goldschmidt divider: correction step exact for every width IF the estimate is within +-1 (hypothesis stated in the "
        "theorem; validated, see assumptions), old-definition witness for the defect fixed by 776d360; bridge lemma to the "
        "C01 plain evaluator. CONDITIONAL results about the PROPOSED REPAIR (cc.SignPad variants of the generators, "
        "hooks/c07-intcomparator-signpad.patch, hooks/c07-idivider-signpad.patch, NOT the code; the repair was withdrawn "
        "because constants carry no sign): C07_intCmp_signpad, C07_idiv_signpad, C07_imod_signpad hold for all operand "
        "widths. "
        "Tie T4: for every modelled builder (adders, subtractors incl. Kogge-Stone, array/Karatsuba/Wallace multipliers, "
        "long divider, Goldschmidt divider, signed divider on both targets, comparators, MUX, index, bitwise, Hamming) the "
        "Lean generator reproduces the real cc.Gates gate for gate (canonical first-occurrence numbering) on all width "
        "triples listed under coverage; T3: sample evaluations and the Lean Circuit.compute on Go-compiled circuits "
        "(restoring / array dividers: evaluator only). Oracle: real builder -> Compile -> bit-sliced evaluation vs "
        "math/big, exhaustive at small widths, sampled to 130 bits, cross-checked with Circuit.Compute and with the raw "
        "cc.Gates order. Known findings are matched on (algorithm, width relation, failure class) so other failures of the "
        "same builder are still reported.")

"""C01 Garbled evaluation equals plain evaluation for every circuit."""
import os
import sys

sys.path.insert(0, os.path.dirname(os.path.abspath(__file__)))
from t1 import run_t1  # noqa: E402  (T1 leaf translator tie, checks/t1.py)

LEVEL = "proof"

THEOREMS = [
    "Mpc.core_correct",
    "Mpc.gates_lockstep",
    "Mpc.C01_garbled_eq_plain",
    "Mpc.C01_label_is_one_of_two",
    "Mpc.C01_decode",
    "Mpc.C01_compute_eq_plain",
    "Mpc.C01_tweaks_in_step",
    "Mpc.C01_concrete",
]

# C01 over garbling HISTORIES on one circuit value (failing Garble calls, several garblings live at once):
# Props/C01Hist.lean on top of the ownership model of C17
HIST_THEOREMS = [
    "Mpc.Pool.reachable_runHist",
    "Mpc.Pool.C01_history_pool_invariant",
    "Mpc.Pool.C01_history_live_garblings_evaluate_correctly",
    "Mpc.Pool.C01_history_live_garbling_stable",
    "Mpc.Pool.C01_history_failed_garble_only_puts",
    "Mpc.Pool.C01_history_next_call_enabled",
    "Mpc.Pool.C01_history_garble_enabled_after_failure",
    "Mpc.Pool.C01_history_double_put_breaks",
]
HIST_SHAPES = 7
HIST_CLASSES = ["beforeR", "insideR", "afterR", "insideLabel", "betweenLabels", "lastByte", "badKey"]


def run_hist(ctx, n, seed, tag=""):
    """Histories on one circuit value: failing Garble calls at every structurally different point of the random
    tape / refused keys, 2..3 garblings live together, evaluated out of order, released in any order
    (harness/cmd/c01/hist.go); the same op lines on the ownership model instantiated with Garble's writes."""
    import hashlib
    ops, out, meta = ctx.run_hx("hist", n, seed=seed, tag=tag)
    ctx.absorb_meta(meta)
    ctx.correspond("garbling histories with failing Garble calls and overlapping live garblings byte-exact "
                   "(seed %d%s)" % (seed, tag), ops, out)
    for line in open(ops, errors="replace"):
        ctx.distinct.add(hashlib.sha1(line.encode()).digest())


def distinct_ops(ctx, ops):
    import hashlib
    for line in open(ops, errors="replace"):
        parts = line.split()
        # non-trivial: at least one non-free gate
        if len(parts) >= 7 and any(ch in parts[6] for ch in "aoi"):
            ctx.distinct.add(hashlib.sha1(line.encode()).digest())


def run(ctx):
    ctx.prove("MpcVerif.Props.C01", THEOREMS)
    ctx.prove("MpcVerif.Props.C01Hist", HIST_THEOREMS)
    run_t1(ctx, ["C01"])          # label primitives and garbling leaves
    if ctx.tier == "thorough":
        ctx.leanchecker("MpcVerif.Props.C01")
        ctx.leanchecker("MpcVerif.Props.C01Hist")
    ctx.build_drv()
    n = 300 if ctx.tier == "quick" else 4000
    seeds = [ctx.seed] if ctx.tier == "quick" else [ctx.seed, ctx.seed + 1000, ctx.seed + 2000]
    if ctx.build_hx():
        for s in seeds:
            ops, out, meta = ctx.run_hx("garble", n, seed=s)
            ctx.absorb_meta(meta)
            ctx.correspond("Garble/Eval/Compute byte-exact (seed %d)" % s, ops, out)
            distinct_ops(ctx, ops)
        nh = 147 if ctx.tier == "quick" else 1470      # multiples of 7 shapes x 7 failure classes
        for s in seeds:
            run_hist(ctx, nh, s)
        if ctx.widen:
            for s in range(ctx.seed + 8000, ctx.seed + 8004):
                run_hist(ctx, 4 * nh, s, tag="-widen")
                if ctx.fails:
                    break
        if ctx.widen:
            # widened search for a concrete failing input (oracle only)
            for s in range(ctx.seed + 7000, ctx.seed + 7006):
                ops, out, meta = ctx.run_hx("garble", 3000, seed=s, tag="-widen")
                ctx.absorb_meta(meta, prefix="widen_")
                if ctx.fails:
                    break
        c = ctx.coverage.get("counters", {})
        combos = sorted(k for k in c if k.startswith("combo_"))
        ctx.coverage["permute_value_combinations_seen"] = len(combos)
        ctx.oblige("generator reached all 16+16+4 value/permute-bit combinations of AND/OR/INV",
                   len(combos) == 36, "seen %d: %s" % (len(combos), combos))
        missing = ["shape %d x %s" % (sh, cl) for sh in range(HIST_SHAPES) for cl in HIST_CLASSES
                   if not c.get("hist_shape_%d_class_%s" % (sh, cl))]
        missing += [k for k in ["hist_fail_" + cl for cl in HIST_CLASSES] +
                    ["hist_max_live_2", "hist_max_live_3", "hist_eval_with_2_live", "hist_eval_with_3_live",
                     "hist_failure_with_1_live", "hist_failure_with_2_live", "hist_garble_with_2_live",
                     "hist_second_release", "hist_key_refilled_in_place"] if not c.get(k)]
        ctx.oblige("history generator reached every history shape x failure point of Garble (before / inside / "
                   "after R, inside / between input labels, last byte, refused key) with 2 and 3 garblings live",
                   not missing, "not reached: %s" % missing)
    ctx.coverage["rule"] = ("random well-formed circuits (6 gate mixes, fan-out, in0=in1, wire overwrite), keys of "
                            "16/24/32 bytes, random/biased tapes; distinct = distinct op lines having at least one "
                            "AND/OR/INV gate; plus garbling histories on one circuit value (mode hist): 7 history "
                            "shapes x 7 failure points of Garble (tape cut before / inside / right after R, inside / "
                            "between input labels, one byte short; refused key size), 2..3 garblings live together, "
                            "evaluated out of order and repeatedly, released in any order, second Release, key "
                            "buffer refilled in place; every history op line is distinct")
    ctx.assumptions += [
        "crypto/aes is an arbitrary function in the theorems; its Lean re-implementation only matters for the byte-exact comparison",
        "tweak counter modelled as Nat (Go: uint32; circuits with > 2^31 non-free gates are out of scope)",
        "WF excludes circuits in which a gate overwrites an input wire (the API hands out input labels after garbling)",
        "histories: sync.Pool is a linearizable multiset (Model/Pool.lean, as in C17); which cached scratch Get returns is "
        "not observable - the theorems hold for every choice, the executed model takes the most recently Put one",
        "histories: a Garble failing inside the gate loop (invalid gate op) is covered by the theorems (any k) but not "
        "generated: it needs a circuit outside the property's well-formed class",
    ]
    return ctx.finish(
        "Theorems: for every hash pair H (every AES key), offset r with select bit set, input labels, WF circuit and "
        "input, garbled evaluation takes no error branch and every defined wire's label is the label of the plain bit "
        "(Props/C01.lean). Tie: real Circuit.Garble/Eval/Compute vs the same Lean definitions executed with Lean AES, "
        "compared byte for byte (R, every wire pair, every table row, every evaluated label, Compute bits). Oracle: "
        "BitFromLabel on every wire vs reference evaluator vs Compute. Histories (Props/C01Hist.lean, on the ownership "
        "model of C17): after ANY sequence of successful Garble calls, Garble calls failing after any number of writes "
        "(exactly one Put of the scratch), evaluations and Releases on one circuit value, no scratch is cached twice or "
        "behind two live garblings, and every live garbling is Circuit.garble of its own key and tape and evaluates "
        "correctly; a double Put on the error path is refuted by a witness history. Tie: mode hist runs such histories "
        "on the real code and on the model (each call a block of model steps, Garble's real writes), byte for byte; "
        "oracle: a live garbling never changes, live garblings never share buffers, every evaluation decodes to the "
        "reference bits.")

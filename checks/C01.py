"""C01 Garbled evaluation equals plain evaluation for every circuit."""
import json
import os
import re
import sys

import vlib

sys.path.insert(0, os.path.dirname(os.path.abspath(__file__)))
from t1 import run_t1  # noqa: E402  (T1 leaf translator tie, checks/t1.py)

LEVEL = "proof"

THEOREMS = [
    "Mpc.core_correct",
    "Mpc.gates_lockstep",
    "Mpc.C01_garbled_eq_plain",
    "Mpc.C01_label_is_one_of_two",
    "Mpc.C01_decode",
    "Mpc.C01_compute_eq_plain",
    "Mpc.C01_tweaks_in_step",
    "Mpc.C01_concrete",
]

# C01 over garbling HISTORIES on one circuit value (failing Garble calls, several garblings live at once):
# Props/C01Hist.lean on top of the ownership model of C17
HIST_THEOREMS = [
    "Mpc.Pool.reachable_runHist",
    "Mpc.Pool.C01_history_pool_invariant",
    "Mpc.Pool.C01_history_live_garblings_evaluate_correctly",
    "Mpc.Pool.C01_history_live_garbling_stable",
    "Mpc.Pool.C01_history_failed_garble_only_puts",
    "Mpc.Pool.C01_history_next_call_enabled",
    "Mpc.Pool.C01_history_garble_enabled_after_failure",
    "Mpc.Pool.C01_history_double_put_breaks",
]
# the boundaries of "every circuit": table slab / stack-table slice / tweak counter / constant-stack loops
# (Model/GarbleBig.lean, Proofs/GarbleBig.lean, section "The boundaries of every circuit" of Props/C01.lean)
EXT_THEOREMS = [
    "Mpc.C01_driver_paths",
    "Mpc.C01_rows_are_table_slice",
    "Mpc.C01_slab_exact",
    "Mpc.C01_rows_per_kind",
    "Mpc.C01_tweak_counter_u32",
    "Mpc.C01_tweak_hash_mod",
    "Mpc.C01_tweak_wrap_shares",
    "Mpc.C01_garble_local",
]
# the input width of "every circuit" and the random stream (Model/GarbleTape.lean, Proofs/GarbleTape.lean, section
# "The input width" of Props/C01.lean)
WIDTH_THEOREMS = [
    "Mpc.C01_every_input_wire_assigned",
    "Mpc.C01_input_pairs_offset",
    "Mpc.C01_short_stream_fails",
    "Mpc.C01_batch_size_irrelevant",
    "Mpc.C01_driver_slots",
]
WIDTH_REACHED = (["ext_dim_inputs", "ext_inputs_scratch_fresh", "ext_inputs_scratch_reused", "ext_inputs_beyond_2p13",
                  "ext_inputs_garblings_tied_full"] +
                 ["ext_inputs_multiple_%d%s" % (m, d) for m in (256, 1024) for d in ("_minus1", "", "_plus1")] +
                 ["ext_inputs_keysize_%d" % k for k in (16, 24, 32)] +
                 ["ext_inputs_assignment_" + a for a in ("last_only", "first_only", "every_kth", "all_ones", "random")] +
                 ["ext_discovered_dim_" + d for d in ("inputs", "labels", "gates", "wires")])
EXT_REACHED = (["ext_labels_body_2p%d%s" % (b, d) for b in (16, 20) for d in ("_minus1", "", "_plus1")] +
               ["ext_%s_beyond_2p%d" % (dim, b) for dim in ("labels", "gates", "wires") for b in (16, 20)] +
               ["ext_kind_%s_after_2p%d_labels" % (k, b) for k in "aoixn" for b in (16, 20)] +
               ["ext_keysize_16", "ext_keysize_24", "ext_keysize_32", "ext_garblings_tied_full",
                "ext_garblings_tied_local", "ext_local_steps", "ext_shape_chain", "ext_shape_wide", "ext_shape_fan"])
# wire reuse: a gate writing one of its own input wires, per gate kind (harness/cmd/c01/main.go addSelfOverwrites)
SELF_OVERWRITE = (["gate_out_eq_in1_" + k for k in "axon"] + ["gate_out_eq_in0_" + k for k in "axoni"] +
                  ["gate_out_eq_in0_eq_in1_" + k for k in "axon"])
HIST_SHAPES = 7
HIST_CLASSES = ["beforeR", "insideR", "afterR", "insideLabel", "betweenLabels", "lastByte", "badKey"]


def run_hist(ctx, n, seed, tag=""):
    """Histories on one circuit value: failing Garble calls at every structurally different point of the random
    tape / refused keys, 2..3 garblings live together, evaluated out of order, released in any order
    (harness/cmd/c01/hist.go); the same op lines on the ownership model instantiated with Garble's writes."""
    import hashlib
    ops, out, meta = ctx.run_hx("hist", n, seed=seed, tag=tag)
    ctx.absorb_meta(meta)
    ctx.correspond("garbling histories with failing Garble calls and overlapping live garblings byte-exact "
                   "(seed %d%s)" % (seed, tag), ops, out)
    for line in open(ops, errors="replace"):
        ctx.distinct.add(hashlib.sha1(line.encode()).digest())


def replay_request():
    """bin/check C01 --replay F: (mode, seed, n, case) when F holds a failing case of the ext mode.  The harness derives
    every case from (tier, seed, case index), so `-only <case>` re-generates and re-runs exactly that case."""
    if "--replay" not in sys.argv:
        return None
    try:
        f = sys.argv[sys.argv.index("--replay") + 1]
        f = f if os.path.isabs(f) else os.path.join(vlib.VERIF, f)
        fl = (json.load(open(f)).get("failure") or {})
        m = re.match(r"hx-c01 (ext) -seed (\d+) -n (\d+) -only (\d+) -tier \w+$", fl.get("rerun", ""))
        return (m.group(1), int(m.group(2)), int(m.group(3)), int(m.group(4))) if m else None
    except Exception:
        return None


def run_ext(ctx, seed, tag="", only=None):
    """Extreme circuits (harness/cmd/c01/ext.go): table labels / gates / wires on and beyond 2^16 and 2^20, all gate
    kinds before and after each boundary; oracle on every wire of the real evaluation; tie: whole-garbling digests
    (full) or row counts + sampled local steps (local) against Model/GarbleBig.lean."""
    import hashlib
    extra = ["-repo", vlib.REPO] + (["-only", str(only)] if only is not None else [])
    ops, out, meta = ctx.run_hx("ext", 100000, seed=seed, tag=tag, extra_args=extra)
    ctx.absorb_meta(meta)
    if not tag:
        # boundary discovery: the integer constants of the garbling code path of the tree under test
        found = meta.get("discovered_constants") or []
        ctx.coverage["discovered_boundary_constants"] = {
            "from": meta.get("discovered_from"), "range": "[8, 2^20]",
            "sizes_per_constant_and_dimension": "c-1, c, c+1, 2c-1, 2c, 2c+1 for inputs / table labels / gates / wires "
                                                "(quick tier: the 2c sizes only up to 2^17)",
            "constants": found, "plan_cases": meta.get("ext_plan_cases")}
        ctx.oblige("boundary discovery read the integer constants of the garbling code path (circuit/garble.go, "
                   "circuit/eval.go, ot/label.go) of the tree under test", bool(found) and
                   not meta.get("discovered_constants_error"),
                   "error: %s; found: %s" % (meta.get("discovered_constants_error"), found))
    if os.path.exists(ops) and os.path.getsize(ops) > 0:
        ctx.correspond("extreme circuits: R, rows per gate kind, digests of all wire pairs / table rows / evaluated "
                       "labels (full) or row counts, Compute bits and sampled local gate steps (local) "
                       "(seed %d%s)" % (seed, tag), ops, out)
        for line in open(ops, errors="replace"):
            ctx.distinct.add(hashlib.sha1(line.encode()).digest())
    return meta


def distinct_ops(ctx, ops):
    import hashlib
    for line in open(ops, errors="replace"):
        parts = line.split()
        # non-trivial: at least one non-free gate
        if len(parts) >= 7 and any(ch in parts[6] for ch in "aoi"):
            ctx.distinct.add(hashlib.sha1(line.encode()).digest())


def run(ctx):
    ctx.prove("MpcVerif.Props.C01", THEOREMS + EXT_THEOREMS + WIDTH_THEOREMS)
    ctx.prove("MpcVerif.Props.C01Hist", HIST_THEOREMS)
    run_t1(ctx, ["C01"])          # label primitives and garbling leaves
    if ctx.tier == "thorough":
        ctx.leanchecker("MpcVerif.Props.C01")
        ctx.leanchecker("MpcVerif.Props.C01Hist")
    ctx.build_drv()
    n = 300 if ctx.tier == "quick" else 4000
    seeds = [ctx.seed] if ctx.tier == "quick" else [ctx.seed, ctx.seed + 1000, ctx.seed + 2000]
    if ctx.build_hx():
        # ---- --replay of one recorded extreme case: exactly that case; a reproduced failure decides the run
        rq = replay_request()
        if rq:
            mode, seed, _, case = rq
            run_ext(ctx, seed, tag="-replay", only=case)
            ctx.coverage.setdefault("counters", {})
            print("replayed %s case %d of seed %d (tier %s): %d oracle failure(s)" % (mode, case, seed, ctx.tier, len(ctx.fails)))
            for f in ctx.fails[:3]:
                print("  " + json.dumps({k: v for k, v in f.items() if k not in ("tape", "circuit")})[:700])
            if ctx.fails:
                ctx.coverage["rule"] = "replay of one recorded %s case (the full check was not run)" % mode
                return ctx.finish("Replay: %s case %d of seed %d was re-generated from its seed and re-run on the real "
                                  "Garble / Eval / Compute; the oracle fails again." % (mode, case, seed))
            print("the replayed case no longer fails; running the full check")
        for s in seeds:
            ops, out, meta = ctx.run_hx("garble", n, seed=s)
            ctx.absorb_meta(meta)
            ctx.correspond("Garble/Eval/Compute byte-exact (seed %d)" % s, ops, out)
            distinct_ops(ctx, ops)
        nh = 147 if ctx.tier == "quick" else 1470      # multiples of 7 shapes x 7 failure classes
        for s in seeds:
            run_hist(ctx, nh, s)
        run_ext(ctx, ctx.seed)
        if ctx.widen:
            for s in range(ctx.seed + 9000, ctx.seed + 9002):
                run_ext(ctx, s, tag="-widen")
                if ctx.fails:
                    break
        if ctx.widen:
            for s in range(ctx.seed + 8000, ctx.seed + 8004):
                run_hist(ctx, 4 * nh, s, tag="-widen")
                if ctx.fails:
                    break
        if ctx.widen:
            # widened search for a concrete failing input (oracle only)
            for s in range(ctx.seed + 7000, ctx.seed + 7006):
                ops, out, meta = ctx.run_hx("garble", 3000, seed=s, tag="-widen")
                ctx.absorb_meta(meta, prefix="widen_")
                if ctx.fails:
                    break
        c = ctx.coverage.get("counters", {})
        combos = sorted(k for k in c if k.startswith("combo_"))
        ctx.coverage["permute_value_combinations_seen"] = len(combos)
        ctx.oblige("generator reached all 16+16+4 value/permute-bit combinations of AND/OR/INV",
                   len(combos) == 36, "seen %d: %s" % (len(combos), combos))
        missing = ["shape %d x %s" % (sh, cl) for sh in range(HIST_SHAPES) for cl in HIST_CLASSES
                   if not c.get("hist_shape_%d_class_%s" % (sh, cl))]
        missing += [k for k in ["hist_fail_" + cl for cl in HIST_CLASSES] +
                    ["hist_max_live_2", "hist_max_live_3", "hist_eval_with_2_live", "hist_eval_with_3_live",
                     "hist_failure_with_1_live", "hist_failure_with_2_live", "hist_garble_with_2_live",
                     "hist_second_release", "hist_key_refilled_in_place"] if not c.get(k)]
        ctx.oblige("history generator reached every history shape x failure point of Garble (before / inside / "
                   "after R, inside / between input labels, last byte, refused key) with 2 and 3 garblings live",
                   not missing, "not reached: %s" % missing)
        missing = [k for k in SELF_OVERWRITE if not c.get(k)]
        ctx.oblige("generator reached gates that write one of their own input wires (out = in1, out = in0, out = in0 = "
                   "in1) for every gate kind", not missing, "not reached: %s" % missing)
        missing = [k for k in EXT_REACHED if not c.get(k)]
        ctx.oblige("extreme-circuit generator reached the 2^16 and 2^20 boundaries of the table slab (one below / on / "
                   "one above), circuits beyond them in gates and wires, every gate kind after each boundary, all key "
                   "sizes, both ties", not missing, "not reached: %s" % missing)
        missing = [k for k in WIDTH_REACHED if not c.get(k)]
        ctx.oblige("extreme-circuit generator reached the INPUT-WIDTH dimension (one below / on / one above multiples of "
                   "256 and 1024, beyond 2^13; only-last / only-first / every k-th / all / random assignments; fresh and "
                   "pooled scratch; all key sizes) and every discovered constant in all four dimensions",
                   not missing, "not reached: %s" % missing)
    ctx.coverage["rule"] = ("random well-formed circuits (6 gate mixes, fan-out, in0=in1, wire overwrite, in every third circuit "
                            "inserted gates of every kind that write one of their own input wires), keys of "
                            "16/24/32 bytes, random/biased tapes; distinct = distinct op lines having at least one "
                            "AND/OR/INV gate; plus garbling histories on one circuit value (mode hist): 7 history "
                            "shapes x 7 failure points of Garble (tape cut before / inside / right after R, inside / "
                            "between input labels, one byte short; refused key size), 2..3 garblings live together, "
                            "evaluated out of order and repeatedly, released in any order, second Release, key "
                            "buffer refilled in place; every history op line is distinct; plus EXTREME circuits (mode ext): "
                            "chain / layered / random-fan-in circuits whose table labels, gates or wires end one below / "
                            "on / one above 2^16 and 2^20 (thorough: up to 2^22), repeating gate-kind patterns with all "
                            "five kinds, with or without two more rounds of all kinds after the boundary; 3 garblings "
                            "(16/24/32 byte keys, scratch reused) x 3 inputs each, every wire judged; each case is one "
                            "distinct op line; INPUT WIDTH (dimension inputs of mode ext): circuits with n input wires for n "
                            "one below / on / one above every multiple of 256 up to 4096 and 2^13 (thorough: every multiple "
                            "of 128 up to 8192, 2^14..2^17, 2^20), every input wire reaching the outputs through a parity "
                            "chain and a reduction tree of all gate kinds, evaluated with only the last / only the first / "
                            "every k-th / all / random input wires set, garbled on fresh and on pooled scratch with all "
                            "key sizes; DISCOVERED boundaries: every integer constant c in [8, 2^20] of circuit/garble.go, "
                            "circuit/eval.go, ot/label.go (literals, constant expressions, package constants they use) "
                            "gives sizes c-1, c, c+1, 2c-1, 2c, 2c+1 in all four dimensions; structural oracle on the real "
                            "Garbled value: select bit of R set and L1 = L0 xor R on every wire")
    ctx.assumptions += [
        "crypto/aes is an arbitrary function in the theorems; its Lean re-implementation only matters for the byte-exact comparison",
        "tweak counter modelled as Nat; the code's uint32 counter equals it mod 2^32 at every gate of every circuit and "
        "exactly below 2^32 tweaks (C01_tweak_counter_u32; the executed hash reduces the tweak mod 2^32, C01_tweak_hash_mod); "
        "circuits with >= 2^31 AND gates are not executed (64 GiB of tables), C01_tweak_wrap_shares is the witness of what "
        "changes there (tweaks repeat; correctness is unaffected, the theorems hold for every H)",
        "extreme circuits: sizes up to 2^22 table labels / gates / wires are executed; the whole garbling is reproduced "
        "by the model up to 2^16 (quick) / 2^20 (thorough), beyond that the model reproduces row counts, Compute bits "
        "and the local steps of sampled gates (C01_garble_local) and the oracle judges every wire on the real code",
        "input width: widths up to 2^13+1 (quick) / 2^17+1 (thorough) are reproduced whole by the model, 2^20 by row counts, "
        "Compute bits, sampled local gate steps and sampled input wire pairs; a random stream wider than 2^13 labels is "
        "written in the op line as the seed of a splitmix64 stream which harness and driver expand identically",
        "boundary discovery is syntactic (go/parser on three files + package constants they mention): a size that is "
        "computed at run time or lives in another package is not found; the static list of widths covers multiples of "
        "256 (128) regardless",
        "WF excludes circuits in which a gate overwrites an input wire (the API hands out input labels after garbling)",
        "histories: sync.Pool is a linearizable multiset (Model/Pool.lean, as in C17); which cached scratch Get returns is "
        "not observable - the theorems hold for every choice, the executed model takes the most recently Put one",
        "histories: a Garble failing inside the gate loop (invalid gate op) is covered by the theorems (any k) but not "
        "generated: it needs a circuit outside the property's well-formed class",
    ]
    return ctx.finish(
        "Theorems: for every hash pair H (every AES key), offset r with select bit set, input labels, WF circuit and "
        "input, garbled evaluation takes no error branch and every defined wire's label is the label of the plain bit "
        "(Props/C01.lean). Tie: real Circuit.Garble/Eval/Compute vs the same Lean definitions executed with Lean AES, "
        "compared byte for byte (R, every wire pair, every table row, every evaluated label, Compute bits). Oracle: "
        "BitFromLabel on every wire vs reference evaluator vs Compute. Histories (Props/C01Hist.lean, on the ownership "
        "model of C17): after ANY sequence of successful Garble calls, Garble calls failing after any number of writes "
        "(exactly one Put of the scratch), evaluations and Releases on one circuit value, no scratch is cached twice or "
        "behind two live garblings, and every live garbling is Circuit.garble of its own key and tape and evaluates "
        "correctly; a double Put on the error path is refuted by a witness history. Tie: mode hist runs such histories "
        "on the real code and on the model (each call a block of model steps, Garble's real writes), byte for byte; "
        "oracle: a live garbling never changes, live garblings never share buffers, every evaluation decodes to the "
        "reference bits.  Boundaries of 'every circuit' (section 2 of Props/C01.lean, Model/GarbleBig.lean): rows of a "
        "gate = slice [start, start+count) of the stack table with the dropped row zero; the slab is exactly filled and "
        "each gate's view reads back its table for every circuit; rows per gate kind are fixed by the circuit; uint32 "
        "tweak counter = Nat counter mod 2^32; the constant-stack loops the driver runs are the model; local "
        "characterisation of a garbling.  Tie: mode ext on circuits across 2^16 / 2^20 table labels, gates, wires.  "
        "Input width (section 3 of Props/C01.lean, Model/GarbleTape.lean): Garble on the slots of ONE random stream - "
        "slot 0 is R, slot i+1 the zero-label of input wire i; for every well-formed circuit of any input width and "
        "every stream of at least 1+nIn labels every input wire carries (slot, slot xor R), the two differ and are not "
        "the zero pair; a shorter stream fails; the number of labels fetched per read is irrelevant.  Tie: dimension "
        "inputs of mode ext (widths around every multiple of 256 and around every constant discovered in the garbling "
        "code path, every input wire reaching the outputs) against garbleSlotsTR byte for byte, bytes consumed "
        "included; oracle: L1 = L0 xor R on every wire of the real Garbled value, every wire of every evaluation.")

"""C01 Garbled evaluation equals plain evaluation for every circuit."""
import os
import sys

sys.path.insert(0, os.path.dirname(os.path.abspath(__file__)))
from t1 import run_t1  # noqa: E402  (T1 leaf translator tie, checks/t1.py)

LEVEL = "proof"

THEOREMS = [
    "Mpc.core_correct",
    "Mpc.gates_lockstep",
    "Mpc.C01_garbled_eq_plain",
    "Mpc.C01_label_is_one_of_two",
    "Mpc.C01_decode",
    "Mpc.C01_compute_eq_plain",
    "Mpc.C01_tweaks_in_step",
    "Mpc.C01_concrete",
]


def distinct_ops(ctx, ops):
    import hashlib
    for line in open(ops, errors="replace"):
        parts = line.split()
        # non-trivial: at least one non-free gate
        if len(parts) >= 7 and any(ch in parts[6] for ch in "aoi"):
            ctx.distinct.add(hashlib.sha1(line.encode()).digest())


def run(ctx):
    ctx.prove("MpcVerif.Props.C01", THEOREMS)
    run_t1(ctx)
    if ctx.tier == "thorough":
        ctx.leanchecker("MpcVerif.Props.C01")
    ctx.build_drv()
    n = 300 if ctx.tier == "quick" else 4000
    seeds = [ctx.seed] if ctx.tier == "quick" else [ctx.seed, ctx.seed + 1000, ctx.seed + 2000]
    if ctx.build_hx():
        for s in seeds:
            ops, out, meta = ctx.run_hx("garble", n, seed=s)
            ctx.absorb_meta(meta)
            ctx.correspond("Garble/Eval/Compute byte-exact (seed %d)" % s, ops, out)
            distinct_ops(ctx, ops)
        if ctx.widen:
            # widened search for a concrete failing input (oracle only)
            for s in range(ctx.seed + 7000, ctx.seed + 7006):
                ops, out, meta = ctx.run_hx("garble", 3000, seed=s, tag="-widen")
                ctx.absorb_meta(meta, prefix="widen_")
                if ctx.fails:
                    break
        c = ctx.coverage.get("counters", {})
        combos = sorted(k for k in c if k.startswith("combo_"))
        ctx.coverage["permute_value_combinations_seen"] = len(combos)
        ctx.oblige("generator reached all 16+16+4 value/permute-bit combinations of AND/OR/INV",
                   len(combos) == 36, "seen %d: %s" % (len(combos), combos))
    ctx.coverage["rule"] = ("random well-formed circuits (6 gate mixes, fan-out, in0=in1, wire overwrite), keys of "
                            "16/24/32 bytes, random/biased tapes; distinct = distinct op lines having at least one "
                            "AND/OR/INV gate")
    ctx.assumptions += [
        "crypto/aes is an arbitrary function in the theorems; its Lean re-implementation only matters for the byte-exact comparison",
        "tweak counter modelled as Nat (Go: uint32; circuits with > 2^31 non-free gates are out of scope)",
        "WF excludes circuits in which a gate overwrites an input wire (the API hands out input labels after garbling)",
    ]
    return ctx.finish(
        "Theorems: for every hash pair H (every AES key), offset r with select bit set, input labels, WF circuit and "
        "input, garbled evaluation takes no error branch and every defined wire's label is the label of the plain bit "
        "(Props/C01.lean). Tie: real Circuit.Garble/Eval/Compute vs the same Lean definitions executed with Lean AES, "
        "compared byte for byte (R, every wire pair, every table row, every evaluated label, Compute bits). Oracle: "
        "BitFromLabel on every wire vs reference evaluator vs Compute.")

"""C15 Malicious-mode OT extension detects a deviating receiver."""
import hashlib
import json
import re

import os
import sys
import vlib

sys.path.insert(0, os.path.dirname(os.path.abspath(__file__)))
from t1 import run_t1  # noqa: E402  (T1 leaf translator tie, checks/t1.py)

LEVEL = "proof"

THEOREMS = [
    # carry-less multiplication (Model/Clmul.lean)
    "Mpc.C15_clmul_coefficients",
    "Mpc.C15_clmul_bilinear",
    "Mpc.C15_clmul_no_zero_div",
    "Mpc.C15_clmul_asm_algorithm",
    # the consistency check (Model/Kos.lean on top of Model/Iknp.lean)
    "Mpc.C15_kos_complete",
    # honest calls on caller-provided result buffers, histories (Model/KosBuf.lean)
    "Mpc.C15_kos_complete_any_buffer",
    "Mpc.C15_kos_history_never_aborts",
    # mixed histories: malicious-mode, semi-honest and packed-bit calls on one pair (Model/KosMix.lean + C06's Model/IknpBuf.lean)
    "Mpc.C15_kos_mixed_history_never_aborts",
    "Mpc.C15_kos_mixed_needs_all_columns",
    "Mpc.C15_kos_accept_iff",
    "Mpc.C15_kos_unselected_harmless",
    "Mpc.C15_kos_single_row_sound",
    "Mpc.C15_kos_never_silent_partial",
    "Mpc.C15_kos_response_sound",
    "Mpc.C15_kos_adaptive_forgery_witness",
    # alterations as sets of positions; the coefficient vector (Model/KosSet.lean)
    "Mpc.C15_kos_set_accept_iff",
    "Mpc.C15_kos_pair_accept_iff",
    "Mpc.C15_kos_distinct_sound",
    "Mpc.C15_kos_never_silent_two_positions",
    "Mpc.C15_kos_dependent_rows_forgery_witness",
    "Mpc.C15_kos_probe_recovers_chi",
]

# dimension counting: a dependent set of rows exists for EVERY coefficient vector (Props/C15Count.lean,
# Proofs/KosCount.lean; pigeonhole from Mathlib.Data.Fintype.Pigeonhole)
THEOREMS_COUNT = [
    "Mpc.C15_dependent_rows_exist",
    "Mpc.C15_dependent_rows_exist_in_window",
    "Mpc.C15_dependent_rows_bound_sharp",
    "Mpc.C15_kos_forgery_exists_for_every_challenge",
    "Mpc.C15_kos_full_statement_false",
]


def squash(s):
    return re.sub(r"\s+", "", s or "")


IO_METHODS = ["SendByte", "SendUint32", "SendData", "SendLabel", "Flush",
              "ReceiveByte", "ReceiveUint32", "ReceiveData", "ReceiveLabel"]
CHECK_FUNCS = ["NewLabel", "newPrg", "prgLabels", "vectorInnPrdtSumNoRed", "mul128"]


def source_facts(ctx):
    """Shape of the code the models hard-code, read from the current source.

    FACTS (obligations) are semantic abstractions: named constants resolved to
    values and same-package helpers followed (harness mode `c15 consts`), and
    the message grammar as the source-order sequence of ot.IO calls with
    receivers named by declared type and helpers inlined (gofacts callseq).
    Everything that is a purely textual expectation AND whose semantic content
    is decided by a correspondence or the oracle of this check is ADVISORY: a
    drift only widens the search."""
    # --- semantic: sizes, resolved to values through named constants and helpers
    sizes = None
    if ctx.hx:
        rc, out = vlib.sh([ctx.hx, "consts", "-repo", vlib.REPO], timeout=120)
        try:
            sizes = json.loads(out.strip().split("\n")[-1]) if rc == 0 else "c15 consts failed: " + out[-300:]
        except ValueError:
            sizes = "c15 consts: unparsable output " + out[-200:]
    if isinstance(sizes, dict):
        ctx.fact("malicious mode: the check batch has 256 rows on both sides (constant arguments of send(..) reached from "
                 "IKNPSender.Send / sizes of the bool and Label vectors made in IKNPReceiver.Receive, named constants resolved)",
                 {"send": sizes["Send"]["send_args"], "receive": sizes["Receive"]["make_sizes"]},
                 {"send": [256], "receive": [256]})
        # the block size of the challenge loop does not influence any value (the
        # stream is read consecutively): advisory
        ctx.advise("challenge coefficients are generated in blocks of 1024 labels on both sides",
                   {"send": 1024 in sizes["Send"]["label_arrays"], "receive": 1024 in sizes["Receive"]["label_arrays"]},
                   {"send": True, "receive": True})
    else:
        ctx.fact("malicious mode: sizes of the check batch can be read from the source", sizes, "a JSON object")
    # --- semantic: message grammar (order and kind of the ot.IO calls, helpers inlined)
    ctx.fact("IKNPSender.Send reads data chunks (payload batch, check batch), then four labels, and sends nothing",
             ctx.callseq("ot", "IKNPSender.Send", methods=IO_METHODS),
             ["IO.ReceiveData", "IO.ReceiveData", "IO.ReceiveLabel", "IO.ReceiveLabel", "IO.ReceiveLabel", "IO.ReceiveLabel"])
    ctx.fact("IKNPReceiver.Receive sends payload chunks, flushes, check chunks, flushes, the seed, flushes, three labels, flushes",
             ctx.callseq("ot", "IKNPReceiver.Receive", methods=IO_METHODS),
             ["IO.SendData", "IO.Flush", "IO.SendData", "IO.Flush", "IO.SendLabel", "IO.Flush", "IO.SendLabel", "IO.SendLabel",
              "IO.SendLabel", "IO.Flush"])
    # --- advisory: structure of the computation (decided by the session correspondence: response bytes,
    #     outputs and the outcome of every enumerated alteration are compared with the model)
    ctx.advise("IKNPSender.Send: challenge stream, [coefficients, inner product] for payload then check batch, x*Delta",
               ctx.callseq("ot", "IKNPSender.Send", methods=[], funcs=CHECK_FUNCS),
               ["func.newPrg", "func.prgLabels", "func.vectorInnPrdtSumNoRed", "func.prgLabels",
                "func.vectorInnPrdtSumNoRed", "func.mul128"])
    ctx.advise("IKNPReceiver.Receive: three random labels (b0, b1, seed2), challenge stream, [coefficients, inner product] "
               "for payload then check batch",
               ctx.callseq("ot", "IKNPReceiver.Receive", methods=[], funcs=CHECK_FUNCS),
               ["func.NewLabel", "func.NewLabel", "func.NewLabel", "func.newPrg", "func.prgLabels",
                "func.vectorInnPrdtSumNoRed", "func.prgLabels", "func.vectorInnPrdtSumNoRed"])
    iknp = vlib.strip_go_comments(vlib.repo_file("ot/iknp.go"))
    ctx.advise("the acceptance test compares both halves of the unreduced product (oracle: every accepted alteration is judged)",
               bool(re.search(r"!\w+\.Equal\(\w+\) \|\| !\w+\.Equal\(\w+\)", iknp)), True)
    ctx.advise("select1 is the all-ones label (correspondence: the response label x)",
               bool(re.search(r"select1 := Label\{\s*D0: 0xffffffffffffffff,\s*D1: 0xffffffffffffffff,\s*\}", iknp)), True)
    ctx.advise("prgLabels reads 16 bytes per label from the stream (correspondence: response bytes; oracle: alterations in every "
               "row class)",
               squash(vlib.strip_go_comments(vlib.go_func_body("ot/iknp.go", r"prgLabels\(") or "")),
               squash("""func prgLabels(c cipher.Stream, labels []Label) {
                var buf [16]byte
                for i := range labels { prg(c, buf[:])
 labels[i].SetBytes(buf[:]) } }"""))
    # --- advisory: carry-less multiplication sources (decided by the mul/clmul/inner correspondence of the REAL
    #     functions, whichever implementation the build dispatches to, and the in-process oracle asm = generic = ref)
    gf = vlib.strip_go_comments(vlib.go_func_body("ot/gf128.go", r"vectorInnPrdtSumNoRed\(") or "")
    ctx.advise("vectorInnPrdtSumNoRed: XOR of mul128(a[i], b[i]) over min(len(a), len(b))",
               squash(gf),
               squash("""func vectorInnPrdtSumNoRed(a, b []Label) (Label, Label) {
                var r1, r2 Label
                n := len(a)
                if n > len(b) { n = len(b) }
                for i := 0; i < n; i++ { lo, hi := mul128(a[i], b[i])
 r1.Xor(lo)
 r2.Xor(hi) }
                return r1, r2 }"""))
    gen = vlib.strip_go_comments(vlib.repo_file("ot/mul128_generic.go"))
    ctx.advise("mul128_generic.go: clmul64 / mul128Generic text as modelled (Model/Clmul.lean)",
               hashlib.sha256(squash(gen[gen.find("package ot"):]).encode()).hexdigest()[:16], "cc31b6e5f854459a")
    ctx.advise("mul128 dispatch: generic unless amd64 && gc, where it is the CLMUL assembly",
               {"generic_tag": bool(re.search(r"//go:build !amd64 \|\| !gc", vlib.repo_file("ot/mul128.go"))),
                "generic_body": bool(re.search(r"return mul128Generic\(a, b\)", vlib.repo_file("ot/mul128.go"))),
                "asm_tag": bool(re.search(r"//go:build amd64 && gc", vlib.repo_file("ot/mul128_amd64.go"))),
                "asm_call": bool(re.search(r"mul128CLMUL\(&a, &b, &lo, &hi\)", vlib.repo_file("ot/mul128_amd64.go")))},
               {"generic_tag": True, "generic_body": True, "asm_tag": True, "asm_call": True})
    asm = re.sub(r"//.*", "", vlib.repo_file("ot/mul128_amd64.s"))
    ctx.advise("mul128_amd64.s: identity byte shuffle, three PCLMULQDQ ($0x00, $0x11, $0x00), 8-byte lane shifts "
               "(the algorithm of C15_clmul_asm_algorithm)",
               {"mask": re.findall(r"\$0x[0-9a-f]{16}", asm), "clmul": re.findall(r"PCLMULQDQ (\$0x\d\d)", asm),
                "shifts": re.findall(r"(PS[LR]LDQ \$8)", asm)},
               {"mask": ["$0x0706050403020100", "$0x0f0e0d0c0b0a0908"], "clmul": ["$0x00", "$0x11", "$0x00"],
                "shifts": ["PSRLDQ $8", "PSRLDQ $8", "PSLLDQ $8", "PSRLDQ $8"]})


def count_ops(ctx, ops):
    nf = 0
    for line in open(ops, errors="replace"):
        parts = line.split()
        if len(parts) >= 7 and parts[1] == "sess":
            key = hashlib.sha1((parts[2] + parts[3] + parts[4] + parts[5]).encode()).digest()
            for f in parts[6].split(";"):
                ctx.distinct.add(hashlib.sha1(key + f.encode()).digest())
                nf += 1
        else:
            ctx.distinct.add(hashlib.sha1(line.encode()).digest())
            nf += 1
    return nf


def mixed_variant_reach(ctx, ops):
    """Do the generated mixed histories tell the code from a sender whose packed-bit call advances only the stream of
    column 0 (driver op `mhist0`, the situation of C15_kos_mixed_needs_all_columns)?  Every history that has a
    malicious-mode call after a packed-bit call must abort on the variant model."""
    ops2 = ops + ".col0"
    want = 0
    with open(ops, errors="replace") as fi, open(ops2, "w") as fo:
        for line in fi:
            fo.write(line.replace("c15 mhist ", "c15 mhist0 ", 1))
            kinds = "".join(x.split(":")[0] for x in line.split()[-1].split(";"))
            want += 1 if re.search(r"B[^M]*M", kinds) else 0
    outp, rc = ctx.run_drv(ops2)
    got = sum(1 for line in open(outp, errors="replace") if line.strip().endswith("A"))
    ctx.coverage["mixed_histories_with_a_malicious_call_after_packed_bits"] = \
        ctx.coverage.get("mixed_histories_with_a_malicious_call_after_packed_bits", 0) + want
    ctx.oblige("the variant model in which the sender's packed-bit call advances only column 0 aborts in every generated "
               "mixed history that has a malicious-mode call after a packed-bit call (and only there)",
               rc == 0 and want > 0 and got == want, "histories with such a call: %d, variant aborts: %d" % (want, got))


def run(ctx):
    ctx.prove("MpcVerif.Props.C15", THEOREMS)
    ctx.prove("MpcVerif.Props.C15Count", THEOREMS_COUNT)
    run_t1(ctx, ["C15"])          # ot.clmul64 / mul128Generic = Model/Clmul.lean
    if ctx.tier == "thorough":
        ctx.leanchecker("MpcVerif.Props.C15")
    ctx.build_drv()
    quick = ctx.tier == "quick"
    # carry-less multiplication through the hook file ot/verif_export_c15.go
    hxmul = ctx.build_hx(cmd="c15mul")
    if hxmul:
        ops, out, meta = ctx.run_hx("mul", 4000 if quick else 60000, binary=hxmul)
        ctx.absorb_meta(meta, prefix="mul_")
        ctx.correspond("mul128 (CLMUL assembly) / clmul64 / vectorInnPrdtSumNoRed = Lean model, structured + random operands",
                       ops, out)
        count_ops(ctx, ops)
    # sessions and fault enumeration (no hook needed)
    have_hx = ctx.build_hx(cmd="c15")
    source_facts(ctx)
    if have_hx:
        seeds = [ctx.seed] if quick else [ctx.seed, ctx.seed + 1000]
        for s in seeds:
            ops, out, meta = ctx.run_hx("sess", 700 if quick else 1500, seed=s, timeout=2400)
            ctx.absorb_meta(meta)
            ctx.correspond("malicious-mode sessions: response bytes, outputs, and the sender's outcome for every "
                           "enumerated alteration = Lean model / acceptance condition (seed %d)" % s, ops, out)
            count_ops(ctx, ops)
        # histories of honest calls on one pair with named result buffers (hist.go)
        for s in seeds:
            ops, out, meta = ctx.run_hx("hist", 24 if quick else 120, seed=s, timeout=2400)
            ctx.absorb_meta(meta)
            ctx.correspond("histories of honest malicious-mode calls with named result buffers: response labels and "
                           "outputs of every call = Lean model Kos.runKCall (seed %d)" % s, ops, out)
            count_ops(ctx, ops)
        # MIXED histories: malicious-mode calls interleaved with semi-honest label calls and packed-bit calls (mhist.go)
        for s in seeds:
            ops, out, meta = ctx.run_hx("mhist", 24 if quick else 96, seed=s, timeout=2400)
            ctx.absorb_meta(meta)
            ctx.correspond("mixed histories (malicious-mode / semi-honest / packed-bit calls in every order on one pair): "
                           "responses and outputs of every call = Lean model Kos.sessionM (seed %d)" % s, ops, out)
            count_ops(ctx, ops)
            mixed_variant_reach(ctx, ops)
        c = ctx.coverage.get("counters", {})
        ctx.evaluations += c.get("faults_total", 0) + c.get("faults_live", 0) + c.get("hist_calls", 0) + c.get("mhist_calls", 0)
        need = ["honest_sessions_ok", "n_single_chunk", "n_multi_chunk", "n_gt_1024_rows", "n_with_padding_rows",
                "faults_selected_column_A", "faults_unselected_or_padding_ok", "faults_live",
                "outcome_padding_ok", "outcome_double_A", "outcome_multi_A", "outcome_bytemask_A",
                "outcome_resp-seed_A", "outcome_resp-x_A", "outcome_resp-t0_A", "outcome_resp-t1_A", "outcome_flip+resp_A",
                "delta_ones", "delta_zero", "delta_bit0", "delta_bit127",
                "chi_recovered", "chi_distinct", "chi_rank_128", "chi_generic_dependency_found",
                "outcome_dep-generic_ok", "outcome_dep-generic-unselected_ok", "faults_live_dep"] + \
               (["outcome_row0-payload_A", "outcome_row0-payload_ok", "outcome_row0-check_A", "outcome_row0-check_ok",
                 "outcome_split-payload_A", "outcome_split-payload_ok", "outcome_split-check_A", "outcome_split-check_ok",
                 "outcome_sample-payload_A", "outcome_sample-check_A", "outcome_lastrow-check_A",
                 "outcome_lastrow-payload_A", "outcome_highcol_A"] if quick else
                ["outcome_all-payload_A", "outcome_all-payload_ok", "outcome_all-check_A", "outcome_all-check_ok"])
        need += ["hist_buf_" + k for k in ("fresh", "kept", "kept_subslice", "ones", "bytefill", "random")] + \
                ["hist_buf_nonzero_before_call", "hist_same_slice_as_previous_call", "hist_n_multi_chunk", "hist_n_gt_1024", "hist_n_single_chunk"]
        need += ["mhist_planned_%s_then_%s" % (a, b) for a in "MLB" for b in "MLB"] + \
                ["mhist_planned_M", "mhist_planned_L", "mhist_planned_B", "mhist_delta_random", "mhist_delta_ones", "mhist_delta_zero",
                 "mhist_delta_bit0"]
        missing = [k for k in need if not c.get(k)]
        ctx.oblige("every honest MIXED history on one pair (malicious-mode calls after and between semi-honest label calls and "
                   "packed-bit calls) completed: no call of any kind aborted",
                   c.get("mhist_cases", 0) > 0 and c.get("mhist_cases_ok", 0) == c.get("mhist_cases", -1),
                   "histories=%s completed=%s" % (c.get("mhist_cases"), c.get("mhist_cases_ok")))
        ctx.oblige("every honest history of malicious-mode calls on one pair completed, whatever the result slices held "
                   "(no abort in any call)", c.get("hist_cases", 0) > 0 and c.get("hist_cases_ok", 0) == c.get("hist_cases", -1),
                   "histories=%s completed=%s" % (c.get("hist_cases"), c.get("hist_cases_ok")))
        ctx.oblige("fault enumeration reached every class (row 0 / all positions of both batches, both halves of the "
                   "Delta-selected/unselected split, padding rows, double/multi flips, byte masks, every response label, "
                   "extreme Deltas, 1/2-4/5 chunks, > 1024 rows, live runs)", not missing, "not reached: %s" % missing)
        ctx.oblige("every honest malicious-mode session completed (no abort)",
                   c.get("honest_sessions_ok", 0) == c.get("sessions", -1) and c.get("outcome_none_A", 0) == 0,
                   "sessions=%s ok=%s honest replays aborted=%s" % (c.get("sessions"), c.get("honest_sessions_ok"),
                                                                     c.get("outcome_none_A", 0)))
        ctx.oblige("on the wire: payload chunks of ceil(n/8)*8 rows, a check batch of exactly 256 rows, four labels (every session)",
                   c.get("wire_shape_ok", 0) == c.get("honest_sessions_ok", -1) and c.get("honest_sessions_ok", 0) > 0,
                   "completed sessions=%s with the expected shape=%s" % (c.get("honest_sessions_ok"), c.get("wire_shape_ok", 0)))
        ctx.oblige("the challenge coefficients of every session were recovered from the real receiver's behaviour (x of "
                   "n+256 probe calls with one choice bit set) and explain the honest checksum",
                   c.get("chi_recovered", 0) == c.get("honest_sessions_ok", -1) and c.get("chi_recovery_failed", 0) == 0,
                   "sessions=%s recovered=%s failed=%s" % (c.get("honest_sessions_ok"), c.get("chi_recovered", 0),
                                                            c.get("chi_recovery_failed", 0)))
        rel = {k[len("chi_relation_"):]: v for k, v in c.items() if k.startswith("chi_relation_")}
        ctx.oblige("the recovered coefficients of every session are non-zero, pairwise distinct (hypothesis distinctNZ of "
                   "C15_kos_distinct_sound), of rank 128, and free of XOR-triples/-quadruples and dependent 96-row windows",
                   c.get("chi_distinct", 0) == c.get("chi_recovered", -1) and
                   c.get("chi_rank_128", 0) == c.get("chi_recovered", -1) and not rel,
                   "recovered=%s distinct=%s rank128=%s relations found (sessions per kind)=%s" % (
                       c.get("chi_recovered", 0), c.get("chi_distinct", 0), c.get("chi_rank_128", 0), rel))
        ctx.coverage["coefficient_rows_recovered"] = c.get("chi_rows_recovered", 0)
        ctx.coverage["selected_column_alterations_accepted_outside_known_class"] = \
            c.get("faults_selected_column_ok", 0) - c.get("known_class_accepted", 0)
        ctx.coverage["exhaustive_positions_n_le_9"] = not quick
        # ctx.widen (broken obligation or drifted advisory, no failing input yet) - except that the known
        # finding of this property is always among ctx.fails and must not suppress the widened search
        drifted = any(a["drifted"] for a in ctx.advisories)
        if (ctx.broken or drifted) and not [f for f in ctx.fails if not ctx.is_known(f)]:
            # widened search for a concrete failing input (oracle only)
            for s in range(ctx.seed + 7000, ctx.seed + 7003):
                ops, out, meta = ctx.run_hx("mhist", 120, seed=s, tag="-widen", timeout=2400)
                ctx.absorb_meta(meta, prefix="widen_")
                if [f for f in ctx.fails if not ctx.is_known(f)]:
                    break
                ops, out, meta = ctx.run_hx("sess", 3000, seed=s, tag="-widen", timeout=2400)
                ctx.absorb_meta(meta, prefix="widen_")
                if [f for f in ctx.fails if not ctx.is_known(f)]:
                    break
    ctx.coverage["rule"] = (
        "mhist: 24 (96) MIXED histories of 2-7 calls on ONE pair: malicious-mode label calls (M), semi-honest label calls (L) and "
        "packed-bit calls SendBits/ReceiveBits (B) from 12 planned kind patterns (every ordered pair of kinds occurs as "
        "consecutive calls; every pattern ends with an M call) plus a random suffix; label sizes 1..1100 around "
        "8/64/128/512/1024, packed-bit sizes with partial words, byte rows that are / are not a multiple of 8 and several "
        "chunks; Delta random / ones / zero / bit 0 / bit 127; result slices as in hist; the op line carries the history and "
        "the model (Kos.sessionM: Kos.runKCall + C06's Iknp.runCallB, stream positions threaded through all kinds) must give "
        "the same responses and outputs; oracle: no call aborts, label calls correlated, packed bits r_j = s_j xor "
        "(Delta.Bit(0) and c_j). "
        "hist: 24 (120) histories of 2-4 honest malicious-mode calls on ONE pair, n in 1..1100 around 8/64/128/512/1024, "
        "every call with a named result slice: fresh, or a window [off, off+n) of the receiver's long-lived array kept as "
        "the earlier calls left it (incl. the very slice of the previous call), or overwritten first with ones / another "
        "byte / an AES-CTR stream; the buffer specs are in the op line and the model runs the same contents; oracle: no "
        "abort, correlation at every position, nothing outside the slice changes. "
        "sess: fault sessions with n in {1,8,9} and n = 9 with the all-ones Delta (thorough: n = 1..9 with EVERY (column,row) position of the payload "
        "chunk incl. padding rows and of the 256-row check batch, + 4 sessions with extreme Deltas): no-fault replay, "
        "row 0 and last row of both batches x 128 columns, columns 120..127 at sampled rows, one flip per column at a random row of each batch, seeded sample of "
        "positions (-n per session), padding rows, double flips (same row / same column / same byte / payload+check), "
        "3-8 flips, whole-byte masks, every byte of seed2/x/t0/t1 (bit 0, bit 7, random mask), flip + unrelated response "
        "alteration, and the chi-aware alteration (flip + t xor chi_r*X^col: the known finding). COEFFICIENT-DRIVEN "
        "multi-row alterations (every session, fault and sweep): the n+256 challenge coefficients are recovered from the "
        "real receiver (probe calls with one choice bit set; op `chi` compares them with the model's AES-CTR stream), "
        "searched for zero coefficients, equal pairs, XOR-triples, XOR-quadruples (n+256 <= 700), dependent windows of 96 "
        "consecutive rows (row 0, every 1024-block boundary, start/end of the check batch) and, by Gaussian elimination, "
        "for a dependent set through a random payload row and one inside the check batch; every set found gives "
        "'one column at all rows of the set' for 2 selected columns, 2 selected columns at once and an unselected "
        "column (classes dep-zero/pair/triple/quad/window/rank = violations when accepted, dep-generic = known "
        "finding), replayed scripted and once per class live. Size sweep: 25 (53) "
        "honest sessions n = 1..2049 (3073) with all choice kinds and random/all-ones/zero/single-bit Delta, each with "
        "~11 sampled alterations (last row, selected/unselected column, multi-chunk offsets). Every alteration is "
        "replayed on a fresh real sender behind a scripted ot.IO; a sample (40 per fault session, 6 per sweep session) "
        "also live over ot.Pipe with a tampering ot.IO wrapper and must give the same outcome. distinct = distinct "
        "(session, alteration) pairs + distinct mul/clmul/inner op lines.")
    ctx.assumptions += [
        "the PRGs (AES-CTR key streams of the base-OT keys and of the challenge seed) are arbitrary functions in every theorem; Lean AES-CTR only matters for the byte-exact comparison",
        "theorems are relative to BaseOK (the 128 base OTs delivered the keys selected by Delta; C06) and to an honest receiver whose messages are altered in transit by XOR masks of the same shape (bit flips never change message lengths or framing)",
        "NOT proved (probabilistic): alterations spanning several rows with E_r & Delta != 0, chosen WITHOUT knowledge of seed2, are accepted only if sum_r chi_r*(E_r & Delta) = 0 (C15_kos_set_accept_iff); that this has probability ~2^-128 over seed2 is a statement about AES-CTR outside Lean. Deterministic parts: single row (C15_kos_single_row_sound), unselected columns (C15_kos_unselected_harmless), response alone (C15_kos_response_sound), one or two positions of one column when the session's coefficients are non-zero and pairwise distinct (C15_kos_distinct_sound; the hypothesis is checked per session on the coefficients recovered from the real code and on the model's)",
        "KNOWN FINDING (challenge chosen by the receiver, 128-bit coefficients): a set S of ~60 rows with XOR_S chi_r = 0 exists among any 129 rows; one column flipped at all rows of S is accepted whatever Delta is (C15_kos_dependent_rows_forgery_witness); reproduced on the real code in every session by the class dep-generic. That such a set EXISTS for every coefficient vector (dimension counting) is not a Lean theorem; the harness exhibits one per session",
        "the coefficients are recovered through the receiver (x is GF(2)-linear in the choice bits, C15_kos_probe_recovers_chi); that the sender uses the same coefficients is implied by completeness on every session and confirmed per sampled row by the chi-aware alterations built from the recovered values",
        "KNOWN FINDING (by design of the KOS check): the matrix altered TOGETHER with a chi-aware response is accepted whenever the guess of E_r & Delta is right (C15_kos_adaptive_forgery_witness); reproduced on the real code by the class adaptive-chi-aware",
        "the amd64 assembly is covered by the theorem about its algorithm (mul128Karatsuba = mul128Generic, PCLMULQDQ modelled as clmul64) and by the differential run of the real mul128 against the model; the CPU instruction semantics is trusted",
        "an altered challenge seed is evaluated by running the model sender (no closed-form condition); altered message lengths / framing are outside the property (bit alterations only)",
        "ot.Pipe is a trusted transport (C11); the scripted replay uses a fresh sender with the same Delta and base-OT keys, cross-checked against live runs",
    ]
    return ctx.finish(
        "Theorems (Props/C15.lean): mul128 coefficients = polynomial product over GF(2) (hence bilinear, no zero "
        "divisors), the CLMUL assembly's Karatsuba algorithm = mul128Generic; honest malicious-mode calls never abort "
        "for every n/choices/streams/challenge generator (C15_kos_complete), in every history of such calls "
        "(C15_kos_history_never_aborts) and in every MIXED history in which they are interleaved with semi-honest label calls "
        "and packed-bit calls sharing the per-column streams (C15_kos_mixed_history_never_aborts; in step in ALL 128 columns is "
        "what carries it: C15_kos_mixed_needs_all_columns); with error masks E1/E2 on the transmitted "
        "chunks of payload and check batch and an altered response the sender accepts IFF sum_r chi_r*(E_r&Delta) xor "
        "(x xor x')*Delta xor (t xor t') = 0 and then outputs the honest labels xor E_r&Delta (C15_kos_accept_iff); "
        "alterations confined to unselected columns are harmless; all effective alterations in one row with chi_r != 0 "
        "abort; response-only alterations abort unless (x xor x')*Delta = t xor t'; for a SET of altered positions the "
        "sender accepts iff the XOR of chi_r*X^i over the positions selected by Delta vanishes (C15_kos_set_accept_iff), two "
        "flips of one selected column pass iff chi_r = chi_r' (C15_kos_pair_accept_iff), with non-zero pairwise distinct "
        "coefficients no 1- or 2-position alteration of one column is silently accepted (C15_kos_distinct_sound, "
        "C15_kos_never_silent_two_positions), rows whose coefficients XOR to zero give an accepted forgery "
        "(C15_kos_dependent_rows_forgery_witness). Tie: real mul128/clmul64/"
        "vectorInnPrdtSumNoRed vs the model (hook ot/verif_export_c15.go), real malicious sessions vs the model byte "
        "for byte (Lean AES-CTR gives the real chi), the coefficients RECOVERED from the real receiver vs the model's "
        "stream for every session, and for EVERY enumerated alteration the real sender's outcome and "
        "outputs vs the acceptance condition (a spread also vs the model sender run on the altered messages). Oracle "
        "(model-independent): accepted => outputs correlated for the original choices and no altered bit in a "
        "Delta-selected column; honest sessions never abort.")

"""C15 Malicious-mode OT extension detects a deviating receiver."""
import hashlib
import re

import vlib

LEVEL = "proof"

THEOREMS = [
    # carry-less multiplication (Model/Clmul.lean)
    "Mpc.C15_clmul_coefficients",
    "Mpc.C15_clmul_bilinear",
    "Mpc.C15_clmul_no_zero_div",
    "Mpc.C15_clmul_asm_algorithm",
    # the consistency check (Model/Kos.lean on top of Model/Iknp.lean)
    "Mpc.C15_kos_complete",
    "Mpc.C15_kos_accept_iff",
    "Mpc.C15_kos_unselected_harmless",
    "Mpc.C15_kos_single_row_sound",
    "Mpc.C15_kos_never_silent_partial",
    "Mpc.C15_kos_response_sound",
    "Mpc.C15_kos_adaptive_forgery_witness",
]


def squash(s):
    return re.sub(r"\s+", "", s or "")


def source_facts(ctx):
    """Shape of the code the models hard-code, read from the current source."""
    iknp = vlib.strip_go_comments(vlib.repo_file("ot/iknp.go"))
    send = vlib.strip_go_comments(vlib.go_func_body("ot/iknp.go", r"\(s \*IKNPSender\) Send\(") or "")
    recv = vlib.strip_go_comments(vlib.go_func_body("ot/iknp.go", r"\(r \*IKNPReceiver\) Receive\(") or "")
    ctx.fact("Send(n, true): check batch of 256 rows, challenge blocks of 1024 labels",
             {"send256": len(re.findall(r"s\.send\(256\)", send)), "chi1024": len(re.findall(r"var chi \[1024\]Label", send)),
              "recv_chi1024": len(re.findall(r"var chi \[1024\]Label", recv)),
              "recv256": len(re.findall(r"make\(\[\](?:bool|Label), 256\)", recv))},
             {"send256": 1, "chi1024": 1, "recv_chi1024": 1, "recv256": 2})
    ctx.fact("Send(n, true): the acceptance test compares both halves of the unreduced product",
             bool(re.search(r"r0, r1 = mul128\(x, s\.Delta\)\s*q0\.Xor\(r0\)\s*q1\.Xor\(r1\)\s*"
                            r"if !q0\.Equal\(t0\) \|\| !q1\.Equal\(t1\) \{\s*return nil, fmt\.Errorf\(", send)), True)
    ctx.fact("Send(n, true): message order send(n), send(256), seed2, [sums], x, t0, t1",
             [m for m in re.findall(r"s\.send\(n\)|s\.send\(256\)|ReceiveLabel\(&(\w+),", send)],
             ["", "", "seed2", "x", "t0", "t1"])
    m = re.search(r"for i := 0; i < len\(result\); i \+= len\(chi\) \{.*?\n\t\}\n(.*?)var x, t0, t1 Label", send, flags=re.S)
    ctx.fact("Send(n, true): sums over the payload in blocks, then the check batch",
             squash(m.group(0) if m else ""),
             squash("""for i := 0; i < len(result); i += len(chi) {
                count := len(result) - i
                if count > len(chi) { count = len(chi) }
                prgLabels(chiPrg, chi[:count])
                r0, r1 := vectorInnPrdtSumNoRed(chi[:count], result[i:])
                q0.Xor(r0)
                q1.Xor(r1)
             }
             prgLabels(chiPrg, chi[:len(choiceVector)])
             r0, r1 := vectorInnPrdtSumNoRed(chi[:len(choiceVector)], choiceVector)
             q0.Xor(r0)
             q1.Xor(r1)
             var x, t0, t1 Label"""))
    ctx.fact("Receive(.., true): select1 is the all-ones label, response order seed2 / x, t0, t1",
             {"select1": bool(re.search(r"select1 := Label\{\s*D0: 0xffffffffffffffff,\s*D1: 0xffffffffffffffff,\s*\}", recv)),
              "order": re.findall(r"SendLabel\((\w+),", recv)},
             {"select1": True, "order": ["seed2", "x", "t0", "t1"]})
    ctx.fact("prgLabels reads 16 bytes per label from the stream",
             squash(vlib.strip_go_comments(vlib.go_func_body("ot/iknp.go", r"prgLabels\(") or "")),
             squash("""func prgLabels(c cipher.Stream, labels []Label) {
                var buf [16]byte
                for i := range labels { prg(c, buf[:])
 labels[i].SetBytes(buf[:]) } }"""))
    gf = vlib.strip_go_comments(vlib.go_func_body("ot/gf128.go", r"vectorInnPrdtSumNoRed\(") or "")
    ctx.fact("vectorInnPrdtSumNoRed: XOR of mul128(a[i], b[i]) over min(len(a), len(b))",
             squash(gf),
             squash("""func vectorInnPrdtSumNoRed(a, b []Label) (Label, Label) {
                var r1, r2 Label
                n := len(a)
                if n > len(b) { n = len(b) }
                for i := 0; i < n; i++ { lo, hi := mul128(a[i], b[i])
 r1.Xor(lo)
 r2.Xor(hi) }
                return r1, r2 }"""))
    gen = vlib.strip_go_comments(vlib.repo_file("ot/mul128_generic.go"))
    ctx.fact("mul128_generic.go: clmul64 / mul128Generic as modelled (Model/Clmul.lean)",
             hashlib.sha256(squash(gen[gen.find("package ot"):]).encode()).hexdigest()[:16], "cc31b6e5f854459a")
    ctx.fact("mul128 dispatch: generic unless amd64 && gc, where it is the CLMUL assembly",
             {"generic_tag": bool(re.search(r"//go:build !amd64 \|\| !gc", vlib.repo_file("ot/mul128.go"))),
              "generic_body": bool(re.search(r"return mul128Generic\(a, b\)", vlib.repo_file("ot/mul128.go"))),
              "asm_tag": bool(re.search(r"//go:build amd64 && gc", vlib.repo_file("ot/mul128_amd64.go"))),
              "asm_call": bool(re.search(r"mul128CLMUL\(&a, &b, &lo, &hi\)", vlib.repo_file("ot/mul128_amd64.go")))},
             {"generic_tag": True, "generic_body": True, "asm_tag": True, "asm_call": True})
    asm = re.sub(r"//.*", "", vlib.repo_file("ot/mul128_amd64.s"))
    ctx.fact("mul128_amd64.s: identity byte shuffle, three PCLMULQDQ ($0x00, $0x11, $0x00), 8-byte lane shifts",
             {"mask": re.findall(r"\$0x[0-9a-f]{16}", asm), "clmul": re.findall(r"PCLMULQDQ (\$0x\d\d)", asm),
              "shifts": re.findall(r"(PS[LR]LDQ \$8)", asm)},
             {"mask": ["$0x0706050403020100", "$0x0f0e0d0c0b0a0908"], "clmul": ["$0x00", "$0x11", "$0x00"],
              "shifts": ["PSRLDQ $8", "PSRLDQ $8", "PSLLDQ $8", "PSRLDQ $8"]})


def count_ops(ctx, ops):
    nf = 0
    for line in open(ops, errors="replace"):
        parts = line.split()
        if len(parts) >= 7 and parts[1] == "sess":
            key = hashlib.sha1((parts[2] + parts[3] + parts[4] + parts[5]).encode()).digest()
            for f in parts[6].split(";"):
                ctx.distinct.add(hashlib.sha1(key + f.encode()).digest())
                nf += 1
        else:
            ctx.distinct.add(hashlib.sha1(line.encode()).digest())
            nf += 1
    return nf


def run(ctx):
    ctx.prove("MpcVerif.Props.C15", THEOREMS)
    if ctx.tier == "thorough":
        ctx.leanchecker("MpcVerif.Props.C15")
    ctx.build_drv()
    source_facts(ctx)
    quick = ctx.tier == "quick"
    # carry-less multiplication through the hook file ot/verif_export_c15.go
    hxmul = ctx.build_hx(cmd="c15mul")
    if hxmul:
        ops, out, meta = ctx.run_hx("mul", 4000 if quick else 60000, binary=hxmul)
        ctx.absorb_meta(meta, prefix="mul_")
        ctx.correspond("mul128 (CLMUL assembly) / clmul64 / vectorInnPrdtSumNoRed = Lean model, structured + random operands",
                       ops, out)
        count_ops(ctx, ops)
    # sessions and fault enumeration (no hook needed)
    if ctx.build_hx(cmd="c15"):
        seeds = [ctx.seed] if quick else [ctx.seed, ctx.seed + 1000]
        for s in seeds:
            ops, out, meta = ctx.run_hx("sess", 700 if quick else 1500, seed=s, timeout=2400)
            ctx.absorb_meta(meta)
            ctx.correspond("malicious-mode sessions: response bytes, outputs, and the sender's outcome for every "
                           "enumerated alteration = Lean model / acceptance condition (seed %d)" % s, ops, out)
            count_ops(ctx, ops)
        c = ctx.coverage.get("counters", {})
        ctx.evaluations += c.get("faults_total", 0) + c.get("faults_live", 0)
        need = ["honest_sessions_ok", "n_single_chunk", "n_multi_chunk", "n_gt_1024_rows", "n_with_padding_rows",
                "faults_selected_column_A", "faults_unselected_or_padding_ok", "faults_live",
                "outcome_padding_ok", "outcome_double_A", "outcome_multi_A", "outcome_bytemask_A",
                "outcome_resp-seed_A", "outcome_resp-x_A", "outcome_resp-t0_A", "outcome_resp-t1_A", "outcome_flip+resp_A",
                "delta_ones", "delta_zero", "delta_bit0", "delta_bit127"] + \
               (["outcome_row0-payload_A", "outcome_row0-payload_ok", "outcome_row0-check_A", "outcome_row0-check_ok",
                 "outcome_split-payload_A", "outcome_split-payload_ok", "outcome_split-check_A", "outcome_split-check_ok",
                 "outcome_sample-payload_A", "outcome_sample-check_A", "outcome_lastrow-check_A",
                 "outcome_lastrow-payload_A", "outcome_highcol_A"] if quick else
                ["outcome_all-payload_A", "outcome_all-payload_ok", "outcome_all-check_A", "outcome_all-check_ok"])
        missing = [k for k in need if not c.get(k)]
        ctx.oblige("fault enumeration reached every class (row 0 / all positions of both batches, both halves of the "
                   "Delta-selected/unselected split, padding rows, double/multi flips, byte masks, every response label, "
                   "extreme Deltas, 1/2-4/5 chunks, > 1024 rows, live runs)", not missing, "not reached: %s" % missing)
        ctx.oblige("every honest malicious-mode session completed (no abort)",
                   c.get("honest_sessions_ok", 0) == c.get("sessions", -1) and c.get("outcome_none_A", 0) == 0,
                   "sessions=%s ok=%s honest replays aborted=%s" % (c.get("sessions"), c.get("honest_sessions_ok"),
                                                                     c.get("outcome_none_A", 0)))
        ctx.coverage["selected_column_alterations_accepted_outside_known_class"] = \
            c.get("faults_selected_column_ok", 0) - c.get("adaptive_accepted", 0)
        ctx.coverage["exhaustive_positions_n_le_9"] = not quick
        if ctx.broken and not [f for f in ctx.fails if not ctx.is_known(f)]:
            # widened search for a concrete failing input (oracle only)
            for s in range(ctx.seed + 7000, ctx.seed + 7003):
                ops, out, meta = ctx.run_hx("sess", 3000, seed=s, tag="-widen", timeout=2400)
                ctx.absorb_meta(meta, prefix="widen_")
                if [f for f in ctx.fails if not ctx.is_known(f)]:
                    break
    ctx.coverage["rule"] = (
        "sess: fault sessions with n in {1,8,9} and n = 9 with the all-ones Delta (thorough: n = 1..9 with EVERY (column,row) position of the payload "
        "chunk incl. padding rows and of the 256-row check batch, + 4 sessions with extreme Deltas): no-fault replay, "
        "row 0 and last row of both batches x 128 columns, columns 120..127 at sampled rows, one flip per column at a random row of each batch, seeded sample of "
        "positions (-n per session), padding rows, double flips (same row / same column / same byte / payload+check), "
        "3-8 flips, whole-byte masks, every byte of seed2/x/t0/t1 (bit 0, bit 7, random mask), flip + unrelated response "
        "alteration, and the chi-aware alteration (flip + t xor chi_r*X^col: the known finding). Size sweep: 25 (53) "
        "honest sessions n = 1..2049 (3073) with all choice kinds and random/all-ones/zero/single-bit Delta, each with "
        "~11 sampled alterations (last row, selected/unselected column, multi-chunk offsets). Every alteration is "
        "replayed on a fresh real sender behind a scripted ot.IO; a sample (40 per fault session, 6 per sweep session) "
        "also live over ot.Pipe with a tampering ot.IO wrapper and must give the same outcome. distinct = distinct "
        "(session, alteration) pairs + distinct mul/clmul/inner op lines.")
    ctx.assumptions += [
        "the PRGs (AES-CTR key streams of the base-OT keys and of the challenge seed) are arbitrary functions in every theorem; Lean AES-CTR only matters for the byte-exact comparison",
        "theorems are relative to BaseOK (the 128 base OTs delivered the keys selected by Delta; C06) and to an honest receiver whose messages are altered in transit by XOR masks of the same shape (bit flips never change message lengths or framing)",
        "NOT proved (probabilistic): alterations spanning several rows with E_r & Delta != 0 are accepted only if sum_r chi_r*(E_r & Delta) = 0; that this has probability ~2^-128 over seed2 is a statement about AES-CTR outside Lean. Deterministic parts: single row (C15_kos_single_row_sound), unselected columns (C15_kos_unselected_harmless), response alone (C15_kos_response_sound)",
        "KNOWN FINDING (by design of the KOS check): the matrix altered TOGETHER with a chi-aware response is accepted whenever the guess of E_r & Delta is right (C15_kos_adaptive_forgery_witness); reproduced on the real code by the class adaptive-chi-aware",
        "the amd64 assembly is covered by the theorem about its algorithm (mul128Karatsuba = mul128Generic, PCLMULQDQ modelled as clmul64) and by the differential run of the real mul128 against the model; the CPU instruction semantics is trusted",
        "an altered challenge seed is evaluated by running the model sender (no closed-form condition); altered message lengths / framing are outside the property (bit alterations only)",
        "ot.Pipe is a trusted transport (C11); the scripted replay uses a fresh sender with the same Delta and base-OT keys, cross-checked against live runs",
    ]
    return ctx.finish(
        "Theorems (Props/C15.lean): mul128 coefficients = polynomial product over GF(2) (hence bilinear, no zero "
        "divisors), the CLMUL assembly's Karatsuba algorithm = mul128Generic; honest malicious-mode calls never abort "
        "for every n/choices/streams/challenge generator (C15_kos_complete); with error masks E1/E2 on the transmitted "
        "chunks of payload and check batch and an altered response the sender accepts IFF sum_r chi_r*(E_r&Delta) xor "
        "(x xor x')*Delta xor (t xor t') = 0 and then outputs the honest labels xor E_r&Delta (C15_kos_accept_iff); "
        "alterations confined to unselected columns are harmless; all effective alterations in one row with chi_r != 0 "
        "abort; response-only alterations abort unless (x xor x')*Delta = t xor t'. Tie: real mul128/clmul64/"
        "vectorInnPrdtSumNoRed vs the model (hook ot/verif_export_c15.go), real malicious sessions vs the model byte "
        "for byte (Lean AES-CTR gives the real chi), and for EVERY enumerated alteration the real sender's outcome and "
        "outputs vs the acceptance condition (a spread also vs the model sender run on the altered messages). Oracle "
        "(model-independent): accepted => outputs correlated for the original choices and no altered bit in a "
        "Delta-selected column; honest sessions never abort.")

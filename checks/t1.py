"""T1 leaf translator tie (DESIGN.md 1.3), shared helper.

run_t1(ctx, groups):
  1. builds harness/cmd/gofacts and runs `gofacts translate -group G` for every
     requested group G on the CURRENT source of the repository under test
     (vlib.REPO).  A group (harness/cmd/gofacts/groups.go and GROUPS below) is a
     fixed list of small Go functions that are the Go side of hand-written
     definitions of ONE property's model; the translator turns them into Lean
     definitions.  A construct outside its subset, or a missing function, is a
     translator FAILURE = a broken obligation, never a skip.
  2. installs the result as lean/MpcVerif/Gen/Leaf<G>.lean (one file per group,
     self-contained apart from the static Gen/Prelude.lean: a callee that is
     listed in another group is emitted again) and proves the group's tie
     module(s) MpcVerif.Proofs.GenTie*: every generated definition equals the
     hand-written model definition the property theorems are about.  Each tie
     theorem is one obligation.

Attribution: a check runs the group(s) of its own property, so an edit of a Go
function breaks the check whose model it invalidates (C01: labels and garbling
leaves; C16: BitFromLabel; C13: bitLen; C15: clmul64 / mul128Generic; C10: gmw
bit vectors; C11: p2p.Conn encoders; C12: mpa small paths; C20: vole helpers; ...).

Gen/Leaf<G>.lean depends on VERIF_REPO, so installing it, `lake build` and the
axiom audit all happen under ONE hold of the project lock (lean/.lake.lock): a
concurrent check against another tree cannot swap a file between generation
and build.  Files are written to a temporary name and renamed, only when the
content differs, and regenerated on every run, so the next run against /repo
restores /repo's version.  Checks of different properties touch different
files, so they do not invalidate each other's build products.

The versions generated from /repo are kept in the tree (as Gen/Leaf.lean was)
so that a plain `lake build` of the whole library works; no Props module
imports a generated file, so bin/setup does not depend on them.
"""
import fcntl
import hashlib
import os
import re

import vlib

GENDIR = os.path.join(vlib.LEAN, "MpcVerif", "Gen")


def _t(names):
    return ["Mpc.GenTie." + n for n in names.split()]


# group -> number of functions the translator must report (listed + callees from other groups) and the tie
# modules: (Lean module, property whose model it ties, what, theorem names).
GROUPS = {
    "C01": {
        "funcs": 20,
        "modules": [
            ("MpcVerif.Proofs.GenTie", "C01", "label primitives and garbling leaves: Model/LabelBV.lean, Model/Garble.lean",
             _t("tie_Equal tie_NewTweak tie_S tie_SetS tie_Mul2 tie_Mul4 tie_Xor tie_And tie_GetData tie_SetData tie_Bit "
                "tie_SetBit tie_idxUnary tie_idx tie_makeK tie_makeKHalf tie_encrypt tie_decrypt tie_encryptHalf "
                "tie_LabelForBit tie_NewTweak_nat tie_makeK_nat tie_makeKHalf_nat tie_encrypt_nat tie_decrypt_nat "
                "tie_encryptHalf_nat")),
        ],
        "sample": ("Mpc.GenTie.tie_makeK", "circuit.makeK", "join (Gen.makeK a b t) = Mpc.makeK (join a) (join b) t.toNat"),
    },
    "C16": {
        "funcs": 2,
        "modules": [
            ("MpcVerif.Proofs.GenTieC16", "C01/C16", "Model/Garble.lean WireL.bitFrom: circuit.BitFromLabel",
             _t("tie_BitFromLabel")),
        ],
        "sample": ("Mpc.GenTie.tie_BitFromLabel", "circuit.BitFromLabel",
                   "Gen.C16.BitFromLabel w l = WireL.bitFrom ⟨join w.L0, join w.L1⟩ (join l)"),
    },
    "C15": {
        "funcs": 2,
        "modules": [
            ("MpcVerif.Proofs.GenTieC15", "C15", "Model/Clmul.lean: ot.clmul64, ot.mul128Generic",
             _t("tie_clmul64 tie_mul128Generic")),
        ],
        "sample": ("Mpc.GenTie.tie_clmul64", "ot.clmul64", "Gen.C15.clmul64 a b = Mpc.Clmul.clmul64 a b"),
    },
    "C13": {
        "funcs": 1,
        "modules": [
            ("MpcVerif.Proofs.GenTieC13", "C13", "Model/IoArg.lean: circuit.bitLen",
             _t("tie_bitLen")),
        ],
        "sample": ("Mpc.GenTie.tie_bitLen", "circuit.bitLen", "(Gen.C13.bitLen v).toNat = Mpc.IoArg.bitLen v.toNat"),
    },
    "C10": {
        "funcs": 6,
        "modules": [
            ("MpcVerif.Proofs.GenTieC10", "C10", "Model/Gmw.lean bit vectors: gmw.bit, setBit, xorBitvec, expand, expandClear, copyOf",
             _t("tie_bit tie_setBit tie_xorBitvec tie_expand tie_expandClear tie_copyOf")),
        ],
        "sample": ("Mpc.GenTie.tie_setBit", "gmw.setBit",
                   "Gen.C10.setBit v i b = if i < 0 ∨ b ∉ {0,1} then none else some (Gmw.setBit v i.toNat (b == 1))"),
    },
    "C12": {
        "funcs": 19,
        "modules": [
            ("MpcVerif.Proofs.GenTieC12", "C12",
             "Model/Mpa.lean small paths (bits <= 64): mpa.Int.{isSmall,small,setSmall,Add,Sub,Mul,Div,Mod,And,AndNot,Or,Xor,"
             "Lsh,Rsh,Cmp,Int64,Bit,BitLen,Sign}; the large paths are opaque parameters",
             _t("tie_isSmall tie_small tie_setSmall tie_Add tie_Sub tie_Mul tie_Div tie_Mod tie_And tie_AndNot tie_Or tie_Xor "
                "tie_Lsh tie_Rsh tie_Cmp tie_Int64 tie_Bit tie_BitLen tie_Sign")),
        ],
        "sample": ("Mpc.GenTie.tie_Div", "compiler/mpa.Int.Div",
                   "∀ large, 0 ≤ z.bits ≤ 64 → (Gen.C12.Int.Div z x y large).map toM = Mpa.div (toM z) (toM x) (toM y)"),
    },
    "C11": {
        "funcs": 7,
        "modules": [
            ("MpcVerif.Proofs.GenTieC11", "C11",
             "Model/Conn.lean wire format and reservation tests: p2p.Conn.{NeedSpace,SendByte,SendUint16,SendUint32,ReceiveByte,"
             "ReceiveUint16,ReceiveUint32}; Flush / Fill are opaque parameters",
             _t("tie_NeedSpace tie_SendByte tie_SendUint16 tie_SendUint32 tie_ReceiveByte tie_ReceiveUint16 tie_ReceiveUint32 "
                "tie_SendByte_room tie_SendUint16_room tie_SendUint32_room tie_ReceiveByte_room tie_ReceiveUint16_room "
                "tie_ReceiveUint32_room wcur_wput")),
        ],
        "sample": ("Mpc.GenTie.tie_SendUint32", "p2p.Conn.SendUint32",
                   "Gen.C11.Conn.SendUint32 c flush fill v = (if len(WriteBuf) < WritePos+4 then flush c else some c).bind "
                   "(fun c1 => some (wput c1 (beBV 4 v)))   -- beBV = Conn.beList of the model"),
    },
    "C06": {
        "funcs": 1,
        "modules": [
            ("MpcVerif.Proofs.GenTieC06", "C06", "Model/Iknp.lean xorBytes: ot.xor (column masking of IKNP)",
             _t("tie_xor")),
        ],
        "sample": ("Mpc.GenTie.tie_xor", "ot.xor",
                   "Gen.C06.xor dst src = some ((xorBytes dst src)[:min len(dst) len(src)], xorBytes dst src)"),
    },
    "C20": {
        "funcs": 1,
        "modules": [
            ("MpcVerif.Proofs.GenTieC20", "C20", "Model/Vole.lean bytes32: vole.bytes32 (32-byte big-endian field elements)",
             _t("tie_bytes32 tie_bytes32_nil natBytesBE_eq")),
        ],
        "sample": ("Mpc.GenTie.tie_bytes32", "vole.bytes32",
                   "(Gen.C20.bytes32 (some v)).map bytes = Vole.bytes32 |v|   (none = out[32-len(b):] panics)"),
    },
    "C18": {
        "funcs": 1,
        "modules": [
            ("MpcVerif.Proofs.GenTieC18", "C18", "Model/Sha2pc.lean pointSign: sha2pc.pointSign",
             _t("tie_pointSign")),
        ],
        "sample": ("Mpc.GenTie.tie_pointSign", "sha2pc.pointSign",
                   "Gen.C18.pointSign signs idx = resOpt (Sha2pc.pointSign signs idx)   (none = index out of range panic)"),
    },
}


# Behaviour-preserving rewrites of the covered functions that are KNOWN to raise a T1 alarm (measured with three
# rewrite batches over all functions of the groups C06 C10 C11 C12 C18 C20: renames of every local / parameter / receiver,
# hoisting, if-chain <-> switch, index <-> range loops, inverted tests with swapped branches, early returns, inlined
# isSmall, commuted operands, stores in another order, masks dropped where the conversion truncates anyway: 102 of 105
# still translate and prove).  Recorded in the evidence; a change of this kind needs the tie proof extended.
KNOWN_FALSE_ALARMS = [
    "a helper extracted from a listed function (the callee is not in the group's list: translator failure)",
    "calls of functions outside the subset (bits.Len64, min/max builtins, append), constants other than literals",
    "circuit.bitLen: result-variable + break forms",
    "gmw.copyOf / gmw.expandClear rewritten as element-wise loops (the tie proves copy / clear, not a loop invariant)",
    "p2p.Conn.ReceiveUint32 as one or-of-shifts expression b0<<24|b1<<16|b2<<8|b3 (ReceiveUint16 in that form is proved)",
    "while-style loops (`for cond {}`), downward loops with computed bounds, loops whose bound the body assigns",
]


def group_ties(g):
    return [t for m in GROUPS[g]["modules"] for t in m[3]]


def _failing_theorems(log, module):
    """Names of the declarations of the tie module in which the build log reports errors."""
    src = os.path.join(vlib.LEAN, module.replace(".", "/") + ".lean")
    base = re.escape(os.path.basename(src))
    decl = []                       # (first line, name)
    for i, line in enumerate(open(src, errors="replace").read().split("\n")):
        m = re.match(r"(?:theorem|def|example|abbrev)\s*(\S*)", line)
        if m:
            decl.append((i + 1, m.group(1) if m.group(1) not in ("", ":") else "example@%d" % (i + 1)))
    names = []
    for m in re.finditer(r"error: \S*/" + base + r":(\d+):\d+", log):
        ln = int(m.group(1))
        owner = [n for (l, n) in decl if l <= ln]
        if owner and owner[-1] not in names:
            names.append(owner[-1])
    return names


def _fail_ties(ctx, groups, why):
    for g in groups:
        for t in group_ties(g):
            ctx.oblige("theorem %s" % t, False, why)


def run_t1(ctx, groups=("C01",)):
    """Regenerate Gen/Leaf<G>.lean for every group G from vlib.REPO and prove the ties.  Returns True
    when the translator accepted the source and every tie theorem checks."""
    groups = list(groups)
    binp = getattr(ctx, "_gofacts", None)
    if not binp:
        binp = os.path.join(ctx.work, "gofacts")
        rc, log = vlib.sh(["go", "build"] + ctx._modfile_args() + ["-o", binp, "./cmd/gofacts"],
                          cwd=vlib.HARNESS, env=vlib.GOENV, timeout=900)
        ctx.oblige("T1 translator harness/cmd/gofacts builds", rc == 0, log[-3000:])
        if rc != 0:
            _fail_ties(ctx, groups, "translator does not build")
            return False
        ctx._gofacts = binp
    os.makedirs(GENDIR, exist_ok=True)
    cov = ctx.coverage.setdefault("t1", {"regenerated_from": vlib.REPO, "groups": {},
                                         "known_false_alarms": KNOWN_FALSE_ALARMS})
    tmps = {}
    restore = {}
    proved = True
    try:
        for g in groups:
            # temporary name in the target directory (same file system; not matched by the lake glob: no .lean suffix)
            tmp = os.path.join(GENDIR, ".Leaf%s.%d.tmp" % (g, os.getpid()))
            rc, log = vlib.sh([binp, "translate", "-repo", vlib.REPO, "-group", g, "-out", tmp], env=vlib.GOENV, timeout=300)
            hashes = dict((m.group(1), m.group(2)) for m in re.finditer(r"^translated (\S+)\s+([0-9a-f]{16}) ", log, flags=re.M))
            opaque = dict((m.group(1), int(m.group(2))) for m in re.finditer(r"^translated (\S+)\s+.* opaque=(\d+)$", log, flags=re.M))
            want = GROUPS[g]["funcs"]
            ok = rc == 0 and os.path.exists(tmp) and len(hashes) == want
            ctx.oblige("T1 translator accepts the current source of the leaf functions of group %s (%d of %d functions of %s "
                       "translated)" % (g, len(hashes) if rc == 0 else 0, want, vlib.REPO), ok, log[-4000:])
            if not ok:
                _fail_ties(ctx, [g], "no generated definitions: the translator rejected the source (tie broken)\n" + log[-1500:])
                if os.path.exists(tmp):
                    os.remove(tmp)
                proved = False
                continue
            tmps[g] = (tmp, hashes, opaque)
        if not tmps:
            return False
        lock = open(os.path.join(vlib.LEAN, ".lake.lock"), "w")
        fcntl.flock(lock, fcntl.LOCK_EX)
        try:
            for g, (tmp, hashes, opaque) in tmps.items():
                gen = os.path.join(GENDIR, "Leaf%s.lean" % g)
                new = open(tmp, "rb").read()
                old = open(gen, "rb").read() if os.path.exists(gen) else None
                if old != new:
                    os.replace(tmp, gen)
                    if vlib.REPO != "/repo" and old is not None:
                        restore[gen] = old      # a scratch tree's definitions must not be left behind (the files are tracked)
                cov["groups"][g] = {
                    "generated": os.path.relpath(gen, vlib.VERIF),
                    "generated_sha256": hashlib.sha256(new).hexdigest()[:16],
                    "changed_since_last_run": old != new,
                    "function_source_hashes": hashes,
                    "opaque_parameters": opaque,      # code outside the subset (large paths): universally quantified in the ties
                    "tie_theorems": len(group_ties(g)),
                }
            # the lock is already held: ctx.prove must not take it again
            logs = []

            def lake_locked(targets, timeout=3000):
                r = vlib.sh(["lake", "build"] + list(targets), cwd=vlib.LEAN, timeout=timeout)
                logs.append(r[1])
                return r
            ctx.lake = lake_locked

            def prove(module, ties, what):
                nb = len(ctx.broken)
                del logs[:]
                ok = ctx.prove(module, ties)
                for b in ctx.broken[nb:]:
                    if b["obligation"].startswith("lake build"):
                        bad = _failing_theorems("\n".join(logs), module)
                        ctx.oblige("T1 ties still proved for the regenerated definitions (%s)" % what, False,
                                   "proofs that fail against the definitions regenerated from %s: %s\n"
                                   "(the Go function behind each of them no longer matches the model)"
                                   % (vlib.REPO, ", ".join(bad) or "see the lake build log"))
                        ctx.broken.insert(nb, ctx.broken.pop())     # show this summary first
                        break
                return ok
            try:
                for g in tmps:
                    for module, prop, what, ties in GROUPS[g]["modules"]:
                        ok = prove(module, ties, "model of %s, %s" % (prop, what))
                        ctx.oblige("T1 tie of the Go leaf functions to the %s model (%s)" % (prop, what), ok,
                                   "the %s model and the current Go source of these functions no longer agree "
                                   "(or the model file of %s does not build)" % (prop, prop))
                        proved = proved and ok
            finally:
                del ctx.lake
                # still under the lock: put /repo's definitions back after a run against a scratch worktree (VERIF_REPO),
                # so that the tracked Gen/Leaf*.lean always describe /repo between runs
                for gen, content in restore.items():
                    with open(gen + ".restore.tmp", "wb") as fh:
                        fh.write(content)
                    os.replace(gen + ".restore.tmp", gen)
        finally:
            fcntl.flock(lock, fcntl.LOCK_UN)
            lock.close()
    finally:
        for tmp, _, _ in tmps.values():
            if os.path.exists(tmp):
                os.remove(tmp)
    for g in tmps:
        s = GROUPS[g].get("sample")
        if s and len(ctx.samples) < 6:
            ctx.samples.append({"t1_tie": s[0], "go": s[1], "source_sha": tmps[g][1].get(s[1]), "statement": s[2]})
    note = ("T1: the gofacts translator's reading of its Go subset is trusted (fixed-width integer operators as BitVec "
            "operators with Go's wrap-around, signed / and % as sdiv / srem, Label = (D0,D1), big-endian *LabelData = one "
            "128-bit value, cipher.Block.Encrypt = arbitrary π, scratch buffer content after a call not observed; slices as "
            "Lean arrays: distinct slice parameters do not overlap, len < 2^63; *big.Int = Option Int with Int64() = the "
            "value mod 2^64; calls left opaque are universally quantified parameters)")
    if note not in ctx.assumptions:
        ctx.assumptions.append(note)
    return proved

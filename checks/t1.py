"""T1 leaf translator tie (DESIGN.md 1.3), shared helper.

run_t1(ctx):
  1. builds harness/cmd/gofacts and runs `gofacts translate` on the CURRENT
     source of the repository under test (vlib.REPO).  The translator turns a
     fixed list of small straight-line Go functions (ot.Label.{Equal,S,SetS,
     Mul2,Mul4,Xor,And,GetData,SetData,Bit,SetBit}, ot.NewTweak,
     ot.{clmul64,mul128Generic}, circuit.{idxUnary,idx,makeK,makeKHalf,
     encrypt,decrypt,encryptHalf,LabelForBit,BitFromLabel,bitLen}) into Lean
     definitions (namespace Mpc.Gen).  A construct
     outside its subset, or a missing function, is a translator FAILURE = a
     broken obligation, never a skip.
  2. installs the result as lean/MpcVerif/Gen/Leaf.lean and proves
     MpcVerif.Proofs.GenTie (every generated definition = the hand-written
     model on the joined 128-bit value) and one further module per property
     whose model a leaf function belongs to (GenTieC16: BitFromLabel, GenTieC15:
     clmul64/mul128Generic, GenTieC13: bitLen); each tie theorem is one
     obligation and a failing module names the property concerned.

Gen/Leaf.lean is a shared file that depends on VERIF_REPO, so installing it,
`lake build` and the axiom audit all happen under ONE hold of the project lock
(lean/.lake.lock): a concurrent check against another tree cannot swap the
file between generation and build.  The file is written to a temporary name
and renamed, and it is regenerated on every run, so the next run against /repo
restores /repo's version.
"""
import fcntl
import hashlib
import os
import re

import vlib

MODULE = "MpcVerif.Proofs.GenTie"
GEN = os.path.join(vlib.LEAN, "MpcVerif", "Gen", "Leaf.lean")

TIES = ["Mpc.GenTie." + t for t in [
    "tie_Equal", "tie_NewTweak", "tie_S", "tie_SetS", "tie_Mul2", "tie_Mul4", "tie_Xor", "tie_And",
    "tie_GetData", "tie_SetData", "tie_Bit", "tie_SetBit",
    "tie_idxUnary", "tie_idx", "tie_makeK", "tie_makeKHalf",
    "tie_encrypt", "tie_decrypt", "tie_encryptHalf", "tie_LabelForBit",
    "tie_NewTweak_nat", "tie_makeK_nat", "tie_makeKHalf_nat",
    "tie_encrypt_nat", "tie_decrypt_nat", "tie_encryptHalf_nat",
]]

# Ties of leaf functions whose hand-written model belongs to ANOTHER property: one Lean module per owning
# property, so that a failure names the property whose model no longer matches the Go source.
EXTRA = [
    ("MpcVerif.Proofs.GenTieC16", "C01/C16", "Model/Garble.lean WireL.bitFrom: circuit.BitFromLabel",
     ["Mpc.GenTie.tie_BitFromLabel"]),
    ("MpcVerif.Proofs.GenTieC15", "C15", "Model/Clmul.lean: ot.clmul64, ot.mul128Generic",
     ["Mpc.GenTie.tie_clmul64", "Mpc.GenTie.tie_mul128Generic"]),
    ("MpcVerif.Proofs.GenTieC13", "C13", "Model/IoArg.lean: circuit.bitLen",
     ["Mpc.GenTie.tie_bitLen"]),
]
ALL_TIES = TIES + [t for e in EXTRA for t in e[3]]

N_FUNCS = 24


def _failing_theorems(log, module=MODULE):
    """Names of the declarations of the tie module in which the build log reports errors."""
    src = os.path.join(vlib.LEAN, module.replace(".", "/") + ".lean")
    base = re.escape(os.path.basename(src))
    decl = []                       # (first line, name)
    for i, line in enumerate(open(src, errors="replace").read().split("\n")):
        m = re.match(r"(?:theorem|def|example|abbrev)\s*(\S*)", line)
        if m:
            decl.append((i + 1, m.group(1) if m.group(1) not in ("", ":") else "example@%d" % (i + 1)))
    names = []
    for m in re.finditer(r"error: \S*/" + base + r":(\d+):\d+", log):
        ln = int(m.group(1))
        owner = [n for (l, n) in decl if l <= ln]
        if owner and owner[-1] not in names:
            names.append(owner[-1])
    return names


def _fail_ties(ctx, why):
    for t in ALL_TIES:
        ctx.oblige("theorem %s" % t, False, why)


def run_t1(ctx):
    """Regenerate Gen/Leaf.lean from vlib.REPO and prove the ties.  Returns True
    when the translator accepted the source and every tie theorem checks."""
    binp = os.path.join(ctx.work, "gofacts")
    rc, log = vlib.sh(["go", "build"] + ctx._modfile_args() + ["-o", binp, "./cmd/gofacts"],
                      cwd=vlib.HARNESS, env=vlib.GOENV, timeout=900)
    ctx.oblige("T1 translator harness/cmd/gofacts builds", rc == 0, log[-3000:])
    if rc != 0:
        _fail_ties(ctx, "translator does not build")
        return False
    os.makedirs(os.path.dirname(GEN), exist_ok=True)
    # temporary name in the target directory (same file system; not matched by the lake glob: no .lean suffix)
    tmp = os.path.join(os.path.dirname(GEN), ".Leaf.%d.tmp" % os.getpid())
    try:
        rc, log = vlib.sh([binp, "translate", "-repo", vlib.REPO, "-out", tmp], env=vlib.GOENV, timeout=300)
        hashes = dict((m.group(1), m.group(2)) for m in re.finditer(r"^translated (\S+)\s+([0-9a-f]{16}) ", log, flags=re.M))
        ok = rc == 0 and os.path.exists(tmp) and len(hashes) == N_FUNCS
        ctx.oblige("T1 translator accepts the current source of the leaf functions (%d of %d functions of %s translated)"
                   % (len(hashes) if rc == 0 else 0, N_FUNCS, vlib.REPO), ok, log[-4000:])
        if not ok:
            _fail_ties(ctx, "no generated definitions: the translator rejected the source (tie broken)\n" + log[-1500:])
            return False
        new = open(tmp, "rb").read()
        lock = open(os.path.join(vlib.LEAN, ".lake.lock"), "w")
        fcntl.flock(lock, fcntl.LOCK_EX)
        try:
            old = open(GEN, "rb").read() if os.path.exists(GEN) else None
            if old != new:
                os.replace(tmp, GEN)
            # the lock is already held: ctx.prove must not take it again
            logs = []

            def lake_locked(targets, timeout=3000):
                r = vlib.sh(["lake", "build"] + list(targets), cwd=vlib.LEAN, timeout=timeout)
                logs.append(r[1])
                return r
            ctx.lake = lake_locked
            def prove(module, ties, what):
                nb = len(ctx.broken)
                del logs[:]
                ok = ctx.prove(module, ties)
                for b in ctx.broken[nb:]:
                    if b["obligation"].startswith("lake build"):
                        bad = _failing_theorems("\n".join(logs), module)
                        ctx.oblige("T1 ties still proved for the regenerated definitions (%s)" % what, False,
                                   "proofs that fail against Gen/Leaf.lean regenerated from %s: %s\n"
                                   "(the Go function behind each of them no longer matches the model)"
                                   % (vlib.REPO, ", ".join(bad) or "see the lake build log"))
                        ctx.broken.insert(nb, ctx.broken.pop())     # show this summary first
                        break
                return ok
            try:
                proved = prove(MODULE, TIES, "label primitives and garbling leaves; models of C01/C16")
                for module, prop, what, ties in EXTRA:
                    ok = prove(module, ties, "model of %s, %s" % (prop, what))
                    ctx.oblige("T1 tie of the Go leaf functions to the %s model (%s)" % (prop, what), ok,
                               "the %s model and the current Go source of these functions no longer agree "
                               "(or the model file of %s does not build)" % (prop, prop))
                    proved = proved and ok
            finally:
                del ctx.lake
        finally:
            fcntl.flock(lock, fcntl.LOCK_UN)
            lock.close()
    finally:
        if os.path.exists(tmp):
            os.remove(tmp)
    ctx.coverage["t1"] = {
        "generated": os.path.relpath(GEN, vlib.VERIF),
        "generated_sha256": hashlib.sha256(new).hexdigest()[:16],
        "regenerated_from": vlib.REPO,
        "changed_since_last_run": old != new,
        "function_source_hashes": hashes,
        "tie_theorems": len(ALL_TIES),
    }
    if len(ctx.samples) < 6:
        ctx.samples.append({"t1_tie": "Mpc.GenTie.tie_makeK", "go": "circuit.makeK", "source_sha": hashes.get("circuit.makeK"),
                            "statement": "join (Gen.makeK a b t) = Mpc.makeK (join a) (join b) t.toNat"})
    ctx.assumptions.append(
        "T1: the gofacts translator's reading of its Go subset is trusted (uint64/uint32/int operators as BitVec "
        "operators, Label = (D0,D1), big-endian *LabelData = one 128-bit value, cipher.Block.Encrypt = arbitrary π, "
        "scratch buffer content after encrypt/decrypt/encryptHalf not observed)")
    return proved

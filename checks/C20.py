"""C20 OT-based multiplication gadgets return shares of the product."""
import hashlib
import os
import re
import sys

import vlib

sys.path.insert(0, os.path.dirname(os.path.abspath(__file__)))
from t1 import run_t1  # noqa: E402  (T1 leaf translator tie, checks/t1.py)

LEVEL = "proof"

THEOREMS = [
    "Mpc.C20_vole_relation",
    "Mpc.C20_vole_concrete",
    "Mpc.C20_vole_messages",
    "Mpc.C20_bytes32_roundtrip",
    "Mpc.C20_bytes32_panics_beyond",
    "Mpc.C20_pack32_roundtrip",
    "Mpc.C20_vole_empty",
    "Mpc.C20_vole_step",
    "Mpc.C20_vole_session",
    "Mpc.C20_vole_session_every_call",
    "Mpc.C20_vole_session_messages",
    "Mpc.C20_wire_frame",
    "Mpc.C20_wire_buffer_independent",
    "Mpc.C20_vole_step_wire",
    "Mpc.C20_vole_session_wire",
    "Mpc.C20_vole_beyond_blocks",
    "Mpc.C20_vole_beyond_64k",
    "Mpc.C20_fx_session",
    "Mpc.C20_toOT_fromOT",
    "Mpc.C20_fx_shares",
    "Mpc.C20_fx_general",
    "Mpc.C20_fxk_shares",
    "Mpc.C20_idealOt_spec",
]

# Order of extension / connection calls the model assumes (Model/Vole.lean).
EXPECT_SENDER_MUL = ["e.iknp.Send", "e.conn.ReceiveData", "e.conn.SendData", "e.conn.Flush"]
EXPECT_RECEIVER_MUL = ["e.iknp.Receive", "e.conn.SendData", "e.conn.Flush", "e.conn.ReceiveData"]


def calls(body, pat):
    return re.findall(pat, vlib.strip_go_comments(body or ""))


def run(ctx):
    ctx.prove("MpcVerif.Props.C20", THEOREMS)
    run_t1(ctx, ["C20"])          # vole.bytes32 = Vole.bytes32
    if ctx.tier == "thorough":
        ctx.leanchecker("MpcVerif.Props.C20")
    ctx.build_drv()

    # ---- structural facts the models rely on
    io_pat = r"\b(e\.(?:iknp|conn)\.(?:Send\w*|Receive\w*|Flush))\("
    ctx.fact("call sequence of vole.Sender.Mul",
             calls(vlib.go_func_body("vole/vole.go", r"\(e \*Sender\) Mul\("), io_pat), EXPECT_SENDER_MUL)
    ctx.fact("call sequence of vole.Receiver.Mul",
             calls(vlib.go_func_body("vole/vole.go", r"\(e \*Receiver\) Mul\("), io_pat), EXPECT_RECEIVER_MUL)
    ot_pat = r"\b(oti\.(?:Send|Receive))\("
    for fn, want in (("FxSend", ["oti.Send"]), ("FxReceive", ["oti.Receive"]),
                     ("FxkSend", ["oti.Send"]), ("FxkReceive", ["oti.Receive"])):
        ctx.fact("OT calls of bmr.%s" % fn, calls(vlib.go_func_body("bmr/fx.go", fn + r"\("), ot_pat), want)
    player = vlib.strip_go_comments(vlib.repo_file("bmr/player.go"))
    ctx.fact("bmr label length k (bits)", re.findall(r"^\s*k\s*=\s*(\d+)\s*$", player, flags=re.M), ["32"])
    wire = vlib.strip_go_comments(vlib.repo_file("bmr/wire.go"))
    ctx.fact("bmr.Label is [k/8]byte", bool(re.search(r"type\s+Label\s+\[k\s*/\s*8\]byte", wire)), True)

    quick = ctx.tier == "quick"
    if ctx.build_hx():
        # vole: every case is a HISTORY of 1..6 Mul calls on one Sender/Receiver pair; the first call of the first 45
        # cases is the grid of lengths {1,2,511..513,1023..1025,2000} x the five fixed moduli; then the long-vector
        # plan (harness/cmd/c20/transport.go): lengths around the multiples of the MEASURED p2p.Conn write buffer
        # (2046..2050, 4094..4098, ...), around the read buffer (32766..32770) and IKNP chunk multiples, each in a
        # history (long after short, short after long, long after long), small and large moduli
        vole_plan = [(ctx.seed, 195)] if quick else [(ctx.seed, 400), (ctx.seed + 1000, 400), (ctx.seed + 2000, 400)]
        fx_plan = [(ctx.seed, 4000)] if quick else [(ctx.seed, 20000), (ctx.seed + 1000, 20000)]
        fxs_plan = [(ctx.seed, 1500)] if quick else [(ctx.seed, 8000), (ctx.seed + 1000, 8000)]
        for s, n in vole_plan:
            ops, out, meta = ctx.run_hx("vole", n, seed=s, timeout=1500)
            ctx.absorb_meta(meta)
            ctx.correspond("vole histories of Mul calls on one pair: per call r, u, framed y-message and u-message as on the "
                           "wire (model: block-wise writer with the measured buffer size) byte-exact, row-stream position "
                           "(seed %d)" % s, ops, out)
            for k in ("write_buffer_bytes", "read_buffer_bytes", "long_plan_cases"):
                if k in meta:
                    ctx.coverage["vole_" + k] = meta[k]
            for line in open(ops, errors="replace"):
                ctx.distinct.add(hashlib.sha1(line.encode()).digest())
        for s, n in fx_plan:
            ops, out, meta = ctx.run_hx("fx", n, seed=s, timeout=1500)
            ctx.absorb_meta(meta)
            ctx.correspond("bmr Fx/Fxk/ToOT/FromOT: OT wire, received label, both shares (seed %d)" % s, ops, out)
            for line in open(ops, errors="replace"):
                ctx.distinct.add(hashlib.sha1(line.encode()).digest())
        for s, n in fxs_plan:
            ops, out, meta = ctx.run_hx("fxs", n, seed=s, timeout=1500)
            ctx.absorb_meta(meta)
            ctx.correspond("bmr histories of Fx/Fxk calls over one OT instance pair (seed %d)" % s, ops, out)
            for line in open(ops, errors="replace"):
                ctx.distinct.add(hashlib.sha1(line.encode()).digest())
        if ctx.broken and not ctx.fails:
            # widened search for a concrete failing input (oracle)
            for s in range(ctx.seed + 7000, ctx.seed + 7003):
                ops, out, meta = ctx.run_hx("vole", 150, seed=s, tag="-widen", timeout=1500)
                ctx.absorb_meta(meta, prefix="widen_")
                ops, out, meta = ctx.run_hx("fx", 4000, seed=s, tag="-widen", timeout=1500)
                ctx.absorb_meta(meta, prefix="widen_")
                ops, out, meta = ctx.run_hx("fxs", 2000, seed=s, tag="-widen", timeout=1500)
                ctx.absorb_meta(meta, prefix="widen_")
                if ctx.fails:
                    break
        c = ctx.coverage.get("counters", {})
        combos = sorted(k for k in c if re.fullmatch(r"fx_a[01]_b[01]_r[01]", k))
        ctx.oblige("Fx ran for all 8 combinations of (a, b, bit 0 of the random label)", len(combos) == 8,
                   "seen %s" % combos)
        ctx.oblige("Fxk ran for b = 0 and b = 1, over ideal OT and over CO",
                   all(c.get(k, 0) > 0 for k in ("fxk_b0", "fxk_b1", "fxk_base_ideal", "fxk_base_co")), str(c))
        hist = {k: c.get(k, 0) for k in (
            "vole_next_same-length", "vole_next_not-longer", "vole_next_longer", "vole_next_empty", "vole_next_one",
            "vole_next_modulus_smaller", "vole_next_fits_earlier_vector", "vole_next_slot_value_narrower")}
        ctx.coverage["vole_history_shapes"] = hist
        ctx.oblige("vole histories covered: later call same length / not longer / longer / empty, smaller modulus after a "
                   "larger one, a value with fewer significant bytes in a vector slot used by an earlier call",
                   all(v > 0 for v in hist.values()) and
                   sum(c.get("vole_session_calls_%d" % k, 0) for k in range(2, 7)) >= 20, str(hist))
        ctx.oblige("gadget histories: Fx and Fxk calls on an OT instance that already carried earlier calls, ideal OT and CO",
                   all(c.get(k, 0) > 0 for k in ("fxs_calls_on_used_ot", "fxs_fx_calls", "fxs_fxk_calls",
                                                 "fxs_base_ideal", "fxs_base_co")), str(c))
        # the transport boundaries of the length quantifier
        tb = {k: c.get(k, 0) for k in (
            "vole_len_last_of_1_write_blocks", "vole_len_first_of_2_write_blocks",
            "vole_len_beyond_one_write_block_small_modulus", "vole_len_beyond_one_write_block_large_modulus",
            "vole_len_beyond_one_write_block_after_one_block_call", "vole_len_beyond_one_write_block_before_one_block_call",
            "vole_len_beyond_two_write_blocks", "vole_len_beyond_one_read_buffer", "vole_next_long-after-long",
            "vole_len_iknp_chunk_edge")}
        ctx.coverage["vole_transport_boundaries"] = tb
        ctx.oblige("vole ran at the transport boundaries of the vector length: last length of one write-buffer block and "
                   "first of two, beyond one block with a small and with a large modulus, after and before a one-block "
                   "call on the same pair, beyond two blocks, beyond the read buffer, IKNP chunk edges",
                   all(v > 0 for v in tb.values()), str(tb))
        grid = [k for k in c if k.startswith("vole_grid_")]
        ctx.coverage["vole_grid_points"] = len(grid)
        ctx.oblige("vole ran on the 9 x 5 grid of boundary lengths x fixed moduli", len(grid) == 45,
                   "seen %d: %s" % (len(grid), sorted(grid)))
        word = [k for k in c if k.startswith("vole_word_")]
        ctx.coverage["vole_word_boundary_moduli_points"] = len(word)
        ctx.oblige("vole ran on the moduli on both sides of the machine-word boundaries (2^31-1 .. 2^192-237) x lengths {1, 40}, "
                   "planned by case index for every seed", len(word) == 24, "seen %d: %s" % (len(word), sorted(word)))
    ctx.coverage["rule"] = (
        "vole: every case is one Sender/Receiver pair with a history of 1..6 Mul calls (one call on 1 case in 5; 2..4 on grid "
        "cases); follow-up calls: same length / 1 / 1..longest-so-far / tiny / longer / EMPTY / random short, modulus same / "
        "small {2,3,251,65537,2^61-1} (half of the follow-ups) / fixed / random, elements from {0,1,p-1,1..4-byte} on half of "
        "the follow-ups (fewer significant bytes than what an earlier call packed in the same slot), relation checked after "
        "every call. LONG-VECTOR PLAN after the grid: the sizes of the p2p.Conn write and read buffer are measured on the tree "
        "under test; lengths fit-1..fit+3 around the last length that fits k write buffers (k = 1..4: 2046..2050, 4094..4098, "
        "...), around the read buffer (32766..32770) and 512k+-1 (k = 3, 5); quick tier: all five lengths around one block, "
        "two around two blocks, one of every other class (the read-buffer one with a small modulus), thorough: every length "
        "of every class with a small and a large modulus (read-buffer class: alternating); history shapes alone / "
        "short-then-long / long-then-short / long-then-neighbour / long-short-long rotate with the seed; field corners at the "
        "end of the vector and at the first index of every later block. First calls: grid of lengths {1,2,511,512,513,1023,1024,1025,2000} x moduli {P-256 prime, 3, 65537, 2^255-19, 2^256-189}, "
        "then random lengths (biased to 1..90 in the quick tier, to multiples of 8/64/512 +-1 and 1..2000 otherwise) x "
        "fixed or random moduli (2, 2^k, 2^k-1, 2^256-1, random of 2..256 bits); per element a draw from {0, 1, p-1, p, "
        "2^256-1, random 256-bit, short byte strings, random below p}; ideal base OT on 3 of 4 cases, CO on the fourth; "
        "random / all-zero / all-one IKNP delta; seeded read fragmentation on half of the sessions. "
        "fx: enumerated (a, b, bit0(rl)) over ideal OT and (a, b) over CO first, then random a, b in {0,1}, random and "
        "special labels / strings, 20% operands outside {0,1} (correspondence only), ToOT/FromOT on random and special "
        "values. fxs: histories of 2..8 Fx/Fxk calls over one OT pair (ideal, CO initialised once). "
        "distinct = distinct op lines (every op line carries all inputs incl. the recovered IKNP labels).")
    ctx.assumptions += [
        "the correlated-OT extension enters Sender.Mul only through the label list it returns; in the history model the labels of "
        "a call are rows pos..pos+m-1 of the extension's row stream (a parameter) and a call advances pos by m rounded up to 8 "
        "(IKNP byte rows; validated by the correspondence on every history); that IKNP returns m labels for every m, across "
        "chunk boundaries, is property C06",
        "OT under Fx/Fxk is a parameter satisfying OtSpec in the theorems (C06 proves it per implementation)",
        "field elements are non-negative big.Int (Nat in the model); y < 2^256 (beyond that bytes32 panics: "
        "C20_bytes32_panics_beyond); a negative y would be sent as |y| (outside the property's domain of field elements)",
        "AES-CTR (prgExpandLabel) is an arbitrary function in the theorems; its Lean re-implementation only matters for "
        "the byte-exact comparison",
        "transport: the write buffer size is a parameter of the wire model (every cap >= 4); the reading side (Fill / "
        "ReceiveData reassembly across the read buffer) is property C11 and enters here only through the tie: sessions with "
        "messages longer than the read buffer are run on the real code under seeded read fragmentation",
        "the sender's IKNP labels are recovered by a second ot.IKNPSender (same code) fed with the recorded base-OT "
        "output, delta and column stream",
        "bmr.NewLabel's randomness is supplied by replacing crypto/rand.Reader in the harness process",
    ]
    return ctx.finish(
        "Theorems (Props/C20.lean): HISTORIES - for every PRG, row stream, start position and list of admissible Mul calls on one "
        "pair no call errs, every call satisfies the share relation and its messages are pack32 of its own vectors, the state "
        "between calls is the stream position only (C20_vole_session*); TRANSPORT - for every write-buffer size cap >= 4, every "
        "connection state and every message SendData;Flush puts pending ++ be32(len) ++ message on the wire in blocks of at most "
        "cap bytes (C20_wire_frame), the same bytes for every cap (C20_wire_buffer_independent); every call of every history has "
        "the share relation at every index and the framed packed vectors on the wire (C20_vole_session_wire), also when the "
        "vector takes more than k blocks (C20_vole_beyond_blocks; C20_vole_beyond_64k: m >= 2048 with the 64 KiB buffer, "
        "indices i >= 2047 explicitly); every history of in-domain Fx/Fxk calls over one OT "
        "returns shares of each call's product (C20_fx_session). Single call: for every PRG, label list, m >= 1, 0 < p <= 2^256, x, y < 2^256 a vole session takes no "
        "error branch, lengths are preserved, r_i, u_i < p and u_i - r_i = x_i*y_i (mod p); bytes32 / packed-vector round "
        "trips and the exact panic condition; Fx shares XOR to a*b for bits (and to (a mod 2)*[b=1] for any uint), Fxk shares "
        "XOR to [b=1]*s for every 32-bit s, FromOT(ToOT(l)) = l, for every OT satisfying OtSpec. Tie: histories of Mul calls on real vole.Sender/"
        "Receiver pairs over a recording connection with the real IKNP over ideal or CO base OT: r, u and both messages equal the "
        "model's (Lean AES-CTR PRG) byte for byte; real bmr.Fx*/ToOT/FromOT: OT wire, received label and both shares equal "
        "the model. Facts: call order of both Mul functions, one OT call per gadget, k = 32. Oracle: the share relations "
        "evaluated with math/big resp. XOR on the real outputs.")

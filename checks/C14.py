"""C14 Circuit files round-trip; parsers reject malformed files gracefully."""
import hashlib
import os
import re

import vlib

LEVEL = "proof"

THEOREMS = [
    "Mpc.C14_parse_ok_imp_WF_mpclc",
    "Mpc.C14_parse_ok_imp_WF_bristol",
    "Mpc.C14_parsed_WF",
    "Mpc.C14_bristol_never_panics",
    "Mpc.C14_mpclc_never_panics",
    "Mpc.C14_mpclc_fuel_adequate",
    "Mpc.C14_parse_total",
    "Mpc.C14_type_roundtrip",
    "Mpc.C14_mpclc_roundtrip",
    "Mpc.C14_bristol_roundtrip",
    "Mpc.C14_each_repair_suffices",
    # statements about the OLD variant Fix.none (before 7309cfb / a93bbfc)
    "Mpc.C14_old_mpclc_panic_witness",
    "Mpc.C14_old_mpclc_roundtrip_short_read_witness",
    "Mpc.C14_old_mpclc_roundtrip_short_reader_witness",
    "Mpc.C14_old_mpclc_roundtrip_one_buffer",
]

# outcome classes / branches the generators must reach (measured, per run)
NEED_COUNTERS = [
    "rt_native_over_4096", "rt_kind_inv-only", "rt_kind_big-header", "rt_kind_no-gates", "rt_bristol_ok",
    "rt_native_ok_std", "rt_native_ok_chunked", "rt_native_ok_chunked-salted", "fuzz_mpclc_ok", "fuzz_mpclc_error", "fuzz_bristol_ok", "fuzz_bristol_error",
    "types_in_grammar", "types_text_ok", "types_text_error",
    # one single name / type string of each of these lengths (around and beyond the bufio buffer)
    "rt_long_string_len_4095", "rt_long_string_len_4096", "rt_long_string_len_4097", "rt_long_string_len_5000",
    "rt_long_string_len_8191", "rt_long_string_len_8192", "rt_long_string_len_8193", "rt_long_string_len_100000",
    "rt_kind_long-string-v0", "rt_kind_long-string-v1", "rt_kind_long-string-v2", "rt_kind_long-string-v3",
    "rt_kind_long-string-v4", "corpus_mpclc_valid_ok",
]


def distinct_ops(ctx, ops, out):
    """distinct non-trivial = distinct op lines whose implementation result is
    not `oversize` (those are never offered to the Go code)."""
    with open(ops, errors="replace") as fo, open(out, errors="replace") as fi:
        for op, res in zip(fo, fi):
            if not res.startswith("oversize"):
                ctx.distinct.add(hashlib.sha1(op.encode()).digest())


def source_facts(ctx, counters_meta):
    """The headline theorems are about the variant Fix.both (parseString reads
    with io.ReadFull, ParseMPCLC tests the gate index before storing).  Both
    repairs are REQUIRED of the code under test: read off the source text and
    found by the harness's behavioural probes (the model is run in the probed
    variant, so a missing repair additionally shows as oracle failures:
    panic on the extra-gate-record files / round trip of > 4 KiB headers)."""
    ps = vlib.go_func_body("circuit/parser.go", r"parseString\(") or ""
    pm = vlib.go_func_body("circuit/parser.go", r"ParseMPCLC\(") or ""
    src_full = bool(re.search(r"io\.ReadFull\(\s*r\s*,\s*buf", ps)) and not re.search(r"r\.Read\(buf\)", ps)
    src_guard = bool(re.search(r"gate\s*>=\s*(int\()?\s*(header\.NumGates|len\(gates\))", pm))
    ctx.fact("source: parseString reads the string bytes with io.ReadFull (a93bbfc)", src_full, True)
    ctx.fact("source: ParseMPCLC tests gate >= len(gates) before storing (7309cfb)", src_guard, True)
    ctx.fact("probe: a 6-byte name parses back through a one-byte-per-Read reader",
             bool(counters_meta.get("variant_parseString_ReadFull")), True)
    ctx.fact("probe: a file with one gate record more than declared is refused with an error",
             counters_meta.get("probe_extra_gate_record"), "error")
    ctx.coverage["code_variant"] = {"parseString_ReadFull": src_full, "gate_count_guard": src_guard}
    pb = vlib.go_func_body("circuit/parser.go", r"ParseBristol\(") or ""
    ctx.fact("ParseBristol has the 'too many gates' guard", bool(re.search(r"gate\s*>=\s*numGates", pb)), True)
    mg = vlib.repo_file("circuit/marshal.go")
    ctx.fact("MAGIC", re.search(r"MAGIC\s*=\s*(0x[0-9a-fA-F]+)", mg).group(1).lower() if re.search(r"MAGIC\s*=\s*(0x[0-9a-fA-F]+)", mg) else None,
             "0x63726300")


def one_mode(ctx, mode, n, seed, what, tag="", extra=()):
    ops, out, meta = ctx.run_hx(mode, n, seed=seed, tag=tag, extra_args=extra)
    ctx.absorb_meta(meta)
    ctx.correspond("%s (seed %d)" % (what, seed), ops, out)
    distinct_ops(ctx, ops, out)
    return meta


def run(ctx):
    ctx.prove("MpcVerif.Props.C14", THEOREMS)
    if ctx.tier == "thorough":
        ctx.leanchecker("MpcVerif.Props.C14")
    ctx.build_drv()
    quick = ctx.tier == "quick"
    seeds = [ctx.seed] if quick else [ctx.seed, ctx.seed + 1000, ctx.seed + 2000]
    n_rt, n_fuzz, n_types = (180, 4000, 900) if quick else (4000, 200000, 20000)
    if ctx.build_hx():
        meta0 = {}
        corpus = os.path.join(vlib.VERIF, "corpus", "C14", "cases.txt")
        if os.path.exists(corpus):
            meta0 = one_mode(ctx, "corpus", 0, ctx.seed, "corpus: recorded files, ParseMPCLC/ParseBristol outcome",
                             extra=["-extra", corpus])
        for s in seeds:
            m = one_mode(ctx, "rt", n_rt, s, "Marshal/MarshalBristol bytes and parse-back result through 4 reader stacks")
            meta0 = meta0 or m
            one_mode(ctx, "fuzz", n_fuzz, s, "ParseMPCLC/ParseBristol outcome class and returned circuit on mutated files")
            one_mode(ctx, "types", n_types, s, "Info.String text and types.Parse result")
        source_facts(ctx, meta0)
        if ctx.broken and not ctx.fails:
            # widened search for a concrete failing input (oracles only matter)
            for s in range(ctx.seed + 7000, ctx.seed + 7004):
                for mode, n in (("rt", 600), ("fuzz", 30000), ("types", 4000)):
                    ops, out, meta = ctx.run_hx(mode, n, seed=s, tag="-widen")
                    ctx.absorb_meta(meta, prefix="widen_")
                if ctx.fails:
                    break
        c = ctx.coverage.get("counters", {})
        missing = [k for k in NEED_COUNTERS if not c.get(k)]
        ctx.oblige("generators reached every required class (%d counters)" % len(NEED_COUNTERS), not missing,
                   "not reached: %s" % missing)
        muts = sorted(set(re.sub(r"_(ok|error|panic|oversize|timeout)$", "", k) for k in c if "_mut_" in k))
        ctx.coverage["mutation_kinds_seen"] = len(muts)
        ctx.oblige("every mutation kind of both formats was applied (29 native + 17 Bristol incl. none)",
                   len(muts) >= 44, "seen %d: %s" % (len(muts), muts))
    ctx.coverage["rule"] = (
        "rt: random well-formed circuits (INV-only, no gates, 5 gate mixes, wire reuse) with random I/O signature trees "
        "(empty/binary/long names, struct members nested, arrays, slices, unsized and out-of-grammar types), struct "
        "headers of 30..450 members (files up to ~20 kB), ONE single name (top level, compound member, output) or type "
        "text (nested arrays) of 4095/4096/4097/5000/8191/8192/8193/100000 bytes; each marshalled in both formats and parsed back through "
        "bytes.Reader, two short-reading readers and a one-buffer reader. fuzz: 1-3 of 20 field-aware native / 16 "
        "token-aware Bristol mutations (truncate, extend by valid/duplicate/random records, bit flips, count and wire "
        "splices incl. boundary values and 10^6, string replacement, line/white-space/number-syntax variants incl. "
        "Unicode spaces). types: Info.String of random types, types.Parse of those and of mutated/multi-line texts. "
        "distinct = distinct op lines whose result is not `oversize`.")
    ctx.assumptions += [
        "declared sizes above 10^6 are outside the property: the harness does not offer such files to the Go parsers "
        "(scope guard re-walks the header with the real bufio.Reader and types.Parse); the model returns `oversize` "
        "on the same files and the two classifications are compared",
        "io.Reader contract: a Read with data left delivers at least one byte (the model clamps the oracle to 1..len(p))",
        "types.Info is modelled as far as String/Parse/Marshal read or write it (kind, Concrete(), Bits, ArraySize, "
        "ElementType); Stats and Gate.Level are not part of either file format",
        "hang-freedom of the Go code is tested (20 s deadline per call), the theorem is about the model's recursion",
    ]
    ctx.trusted = vlib.DEFAULT_TRUSTED + [
        "Go regexp (POSIX classes, ^/$ as line anchors), strconv, strings.TrimSpace, bufio, encoding/binary as "
        "re-implemented in Model/Format.lean: tied by the correspondence runs only",
    ]
    return ctx.finish(
        "Theorems (Props/C14.lean), all for the code as it is (variant Fix.both, required by fact + probe): every "
        "circuit either parser returns, for every byte string and every reader behaviour, satisfies wfFrom "
        "(defined-before-use, indices in range) and has all wires assigned; neither parser has an out-of-range access; "
        "recursion bounds never reached; type text, Bristol and native round trips at full strength (native: every "
        "valid circuit, every buffer size and read-size behaviour, every file size), re-marshal byte-equal, same "
        "function. The defects of the old variant (panic on extra gate records, short read in parseString) are kept "
        "as theorems about Fix.none. Tie: the compiled Lean model is run on the same "
        "files/circuits as the Go code: Marshal and MarshalBristol bytes, ParseMPCLC/ParseBristol result (full dump of "
        "the returned circuit, or error/panic class), Info.String, types.Parse. Oracle on the Go outputs: round trip "
        "(same gates/counts/signature, same function on random inputs, re-marshal byte-equal), no panic, no hang, "
        "ok implies well-formed (independent re-check).")

"""C08 Compilation is deterministic.

Level "other": (1) structural facts extracted with go/types from the compile
path, compared as SEMANTIC abstractions (literal source text only as
advisories) (every `range` over a map, every package-level variable, the fields of
the objects a Compiler holds, go/select/rand uses, and the two repairs: every
code-generating entry point of Compiler resets the package table before it
parses (/repo 1e863b8), Package.Init and Compiler.parse iterate
pkg.SortedImports() (/repo 6aa1568)) are compared with the table below, in
which every map-range site names its Lean obligation; (2) Lean theorems:
permutation invariance of every site's fold, of Package.Init and Compiler.parse
as a whole, and history independence of a compilation; refutation witnesses
are kept about the old definitions only; (3) an oracle on the real compiler:
every corpus program is compiled k times on one Compiler, on fresh instances,
in separate child processes and on a long-lived Compiler after other programs;
circuit bytes and SSA listings are compared, every difference is a violation;
(4) correspondence of the executable Lean models (DefineConstants order,
Type.String search, Package.Init block order and anonymous numbering, labels of
successive compilations) with the real outputs; (5) PROCESS STATE: a
compilation step is a function of (source, parameters, process state)
(Model/ProcState.lean); theorems: the step of the code as it is does not depend
on the process state, a memo table whose object is a function of its key is
invisible after every history, a coarser key is visible (witness: the divider
of mpa.Int.Div/Mod keyed by max(x.bits, y.bits)); oracle (harness pstate.go):
sibling groups of programs per stateful / cache-like facility reachable from the
compile path (wide constant / % * + - & | ^ << >> and comparisons, run-time
operators over widths and signedness, string / array constants, library imports
with native circuits and width-generic functions, one source under different
input sizes and parameters), every history in its own process (one Compiler,
fresh Compilers, mixed, cross-facility), all compilations of a program compared
byte for byte, a difference minimised to a concrete history; correspondence of
the folded wide constants along real histories (op phist); (6) ALL STEP KINDS
(Model/ProcSteps.lean, harness pacts.go): what a process did before a
compilation is not only compilations - a history step has a kind (Compile,
CompileFile, CompileSSA, streaming garbler session via Stream / StreamFile /
CompileSSA+Program.Stream against an in-process evaluator, Compile+Compute,
Compile+Garbler/Evaluator, Compile+Marshal+Parse); theorems: if every kind
leaves what a compilation reads unchanged the output is history independent
over histories of all kinds, the code as it is (a new wire allocator per
program) does, a process-wide allocator pool is invisible iff its Release
empties the free lists or no streaming session ran (witness: recycled,
already numbered input-wire arrays); oracle: per sibling group one more child
process `C v; K1 a1; C v; K2 a2; C v'; ...` (GOGC=off, every other one
GOMAXPROCS=1, so pooled objects survive) and one over all groups; every circuit
compiled inside a step of any kind joins the comparison of all compilations of
its program, all steps of one (program, kind, inputs) are compared;
correspondence (op ahist): folded constants, NumWires-NumGates and the results
of sessions / Compute along real histories over all kinds.  A new package-level
variable in the compile path focuses the widened history search on the
facilities of its package, with every kind and same-/other-width actors.
(7) CONCURRENT HISTORY ELEMENTS (Model/ProcConc.lean, harness pconc.go): a
process that compiles several programs AT THE SAME TIME (a server, parallel
tests), each with its own Compiler and Params, makes repeated compilations too;
what overlapping compilations share is the process state, and state that every
compilation writes before it reads it (a scratch buffer) is invisible to every
sequential history.  A step is a sequence of atomic micro-steps, a concurrent
element runs its steps under a schedule; theorems: micro-steps that leave what
they read unchanged give every task its solo outputs under EVERY schedule, the
code as it is does (over histories of concurrent elements of all step kinds), a
package-level scratch cell for the names of constants is invisible to
sequential histories and visible to an interleaving (witness); oracle: per
sibling group one more child process whose history elements are k = 2..8
goroutines started from a barrier (same program / different programs / mixed
with programs rich in int64 constants: family const-rich - array indexing,
slices, struct fields, len, strings), several rounds, GOMAXPROCS default and
2 / 4 / 8, one process over all groups with other step kinds at the same time;
every step joins the comparison of all compilations of its program (which
starts from the sequential histories); a difference is minimised to a concrete
concurrent history (replay: that history, re-run up to 8 times because the
schedule is the runtime's, against the program alone in a fresh process); one
concurrent history runs in a child built with the race detector (go build
-race of the harness): a reported data race between two compilations is a
schedule-independent witness of shared writable state (failure
c08-concurrent-compilations-data-race, the report names the package-level
variable; replay = the history again under the race detector);
correspondence (op chist): the outputs of every step of real concurrent
elements = the model's under a seeded schedule.
(8) WIDTH SWEEP (Model/WidthTable.lean, harness sweep.go): the property
quantifies over all programs, hence over all operand widths; the builders of
compiler/circuits choose their construction by the width, one of them through a
package-level table keyed by the width (multiplierArrayTresholds).  Theorems:
the lookup BY KEY of the code as it is, the Karatsuba recursion it selects and
what the harness observes of it are the same for all hand-over orders of the
table; a lookup by the CLOSEST key (best-so-far loop over `range m`) is order
independent iff all closest keys carry one value or ties are broken by a total
order on the keys (general converse + witness: width 29 between the tuned
widths 21 and 37).  Oracle: one operator per program (* / % + - six
comparisons, & | ^ + select; uint / int; Yao / GMW) at a third of the widths
1..130 per seed (all in the thorough tier), the powers of two and the boundary
widths (midpoints between / edges of the runs of keys) of every integer-keyed
package-level table of the compile path (fact int_tables), every program
compiled >= 8 times in 8 child processes (fresh and long-lived Compilers); more
than one output = failure c08-width-sweep-nondeterministic, confirmed alone in
8 x 16 compilations, replay = the program.  A NEW or CHANGED map-range site
focuses one more sweep (all widths 1..130, boundaries, 64 compilations each) on
the operators whose builders reach the function holding the site (fact
reached_from).  Correspondence (op mthr): the multiplier limits L for which
Params.CircMultArrayTreshold = L gives the byte-identical circuit as the
default parameters = multClass of the table read from the source.
"""
import hashlib
import json
import os
import sys

import vlib

LEVEL = "other"

THEOREMS = [
    "Mpc.C08_sorted_perm_unique",
    "Mpc.C08_defineConstants_perm_invariant",
    "Mpc.C08_defineConstants_needs_distinct_names",
    "Mpc.C08_sortByKey_perm_invariant",
    "Mpc.C08_findKey_perm_invariant",
    "Mpc.C08_findKey_needs_injective",
    "Mpc.C08_maxLen_perm_invariant",
    "Mpc.C08_setCopy_perm_invariant",
    "Mpc.C08_setSubtract_perm_invariant",
    "Mpc.C08_sortedImports_perm_invariant",
    "Mpc.C08_bytesLe_isOrder",
    "Mpc.C08_init_perm_invariant",
    "Mpc.C08_parse_perm_invariant",
    "Mpc.C08_history_independent",
    "Mpc.C08_reset_at_start_needed",
    "Mpc.C08_repeated_compilations_equal",
    "Mpc.C08_alias_resolution_observation",
    "Mpc.C08_old_init_order_dependent",
    "Mpc.C08_old_parse_alias_order_dependent",
    "Mpc.C08_old_history_dependent_init",
    "Mpc.C08_old_history_dependent_labels",
    "Mpc.C08_step_independent_of_process_state",
    "Mpc.C08_foldNow_is_uncached_divider",
    "Mpc.C08_memo_keyed_by_object_history_independent",
    "Mpc.C08_memo_coarse_key_history_dependent",
    "Mpc.C08_divider_keyed_by_widths_history_independent",
    "Mpc.C08_divider_keyed_by_max_width_history_dependent",
    "Mpc.C08_all_step_kinds_history_independent",
    "Mpc.C08_stepNowK_independent_of_process_state",
    "Mpc.C08_pooled_allocator_keeping_free_lists_history_dependent",
    "Mpc.C08_pooled_allocator_invisible_without_streaming",
    "Mpc.C08_pooled_allocator_cleared_history_independent",
    "Mpc.C08_concurrent_interleavings_frame",
    "Mpc.C08_concurrent_history_solo_outputs",
    "Mpc.C08_shared_scratch_sequential_invisible",
    "Mpc.C08_shared_scratch_interleaving_dependent",
    "Mpc.C08_multiplier_table_perm_invariant",
    "Mpc.C08_lookup_needs_functional",
    "Mpc.C08_nearest_key_perm_invariant",
    "Mpc.C08_nearest_key_tie_order_dependent",
    "Mpc.C08_nearest_key_tie_witness",
]

# width sweep (harness sweep.go): operator groups and the builder names of compiler/circuits that make them.  A new
# or changed map-range site focuses the sweep on the groups whose builders reach the function holding the site
# (fact reached_from); a site that no builder reaches but the compile entry points do focuses it on all groups.
SWEEP_OPS = ["mul", "div", "mod", "add", "sub", "lt", "le", "gt", "ge", "eq", "ne", "bits"]
SWEEP_GROUPS = {"mul": ("Multiplier",), "div": ("Divider",), "add": ("Adder",), "sub": ("Subtractor",),
                "cmp": ("Comparator",), "bits": ("Binary", "Logical", "MUX")}
SWEEP_SIG = "c08-width-sweep-nondeterministic"

# process-state histories (harness pstate.go): generator families and, per package of the compile path, the
# families whose programs reach package-level state of that package beyond what every compilation reaches.
# A new / changed package-level variable in package P focuses the widened history search on PKG_FAMILIES[P].
PSTATE_FAMILIES = ["wide-const-divmod", "wide-const-arith", "wide-const-bits", "runtime-ops", "const-aggregates",
                   "library", "sizes-params", "const-rich"]
PKG_FAMILIES = {
    "compiler/mpa": ["wide-const-divmod", "wide-const-arith", "wide-const-bits"],
    "compiler/circuits": ["wide-const-divmod", "wide-const-arith", "runtime-ops", "library"],
    "circuit": ["wide-const-divmod", "wide-const-arith", "runtime-ops", "library", "sizes-params"],
    # every compilation and every streaming session runs through these packages; what differs between requests
    # there is the value / wire / type population: widths and signedness, aggregates, instantiated library functions,
    # input sizes
    "compiler/ssa": ["runtime-ops", "const-aggregates", "library", "sizes-params", "wide-const-bits", "const-rich"],
    "compiler/ast": ["runtime-ops", "const-aggregates", "library", "sizes-params", "wide-const-arith", "const-rich"],
    "compiler": ["const-aggregates", "library", "sizes-params", "const-rich"],
    "compiler/utils": ["runtime-ops", "library", "sizes-params", "const-rich"],
    "types": ["runtime-ops", "const-aggregates", "sizes-params", "const-rich"],
}
# step kinds of the activity histories (harness pacts.go)
PSTATE_KINDS = ["stream", "stream-file", "ssa-stream", "compute", "garble-eval", "roundtrip", "compile-file", "compile-ssa"]

# ------------------------------------------------------------------ expected facts
# Every `range` over a map in compiler, compiler/ast, compiler/ssa,
# compiler/circuits, compiler/utils, compiler/mpa, types, circuit.  `body` and
# `next` are the normalised source text of the loop body and of the statement
# following the loop.  `cls` / `lean` (documentation, not compared): the
# classification and the Lean obligation that covers the site.
SITES = [
    {"file": "compiler/ast/package.go", "func": "Package.SortedImports", "expr": "pkg.Imports", "type": "map[string]string",
     "vars": "alias", "under_if_false": False,
     "body": "{ aliases = append(aliases, alias) }", "next": "sort.Strings(aliases)",
     "cls": "collect the keys then sort.Strings (the only range over an Imports map; Package.Init and Compiler.parse "
            "iterate its result, fact sorted_import_loops)",
     "lean": "C08_sortedImports_perm_invariant; whole loops: C08_init_perm_invariant, C08_parse_perm_invariant"},
    {"file": "compiler/ssa/instructions.go", "func": "init", "expr": "operands", "type": "map[ssa.Operand]string",
     "vars": "_,v", "under_if_false": False,
     "body": "{ if len(v) > maxOperandLength { maxOperandLength = len(v) } }", "next": "",
     "cls": "maximum", "lean": "C08_maxLen_perm_invariant"},
    {"file": "compiler/ssa/peephole.go", "func": "init", "expr": "operands", "type": "map[ssa.Operand]string",
     "vars": "k,v", "under_if_false": False,
     "body": "{ if v == parts[0] { op = k found = true break } }",
     "next": "if !found { panic(fmt.Sprintf(\"unknown operand '%s'\", parts[0])) }",
     "cls": "search for the key of a value (operand names are distinct); result used by the disabled Peephole only",
     "lean": "C08_findKey_perm_invariant"},
    {"file": "compiler/ssa/program.go", "func": "Program.DefineConstants", "expr": "prog.Constants",
     "type": "map[string]ssa.ConstantInst", "vars": "_,c", "under_if_false": False,
     "body": "{ consts = append(consts, c.Const) }",
     "next": "sort.Slice(consts, func(i, j int) bool { return strings.Compare(consts[i].Name, consts[j].Name) == -1 })",
     "cls": "collect then sort by name (names distinct: map keyed by name)",
     "lean": "C08_defineConstants_perm_invariant, C08_sorted_perm_unique"},
    {"file": "compiler/ssa/program.go", "func": "Program.PP", "expr": "step.Live", "type": "ssa.Set",
     "vars": "_,live", "under_if_false": True,
     "body": "{ fmt.Fprintf(out, \"#\\t\\t- %v\\n\", live) }", "next": "",
     "cls": "dead code (inside `if false`)", "lean": "-"},
    {"file": "compiler/ssa/program.go", "func": "Program.liveness", "expr": "live", "type": "ssa.Set",
     "vars": "_,v", "under_if_false": False,
     "body": "{ step.Live.Add(v) from := v for { to, ok := aliases[from.ID] if !ok { break } step.Live.Add(to) from = to } }",
     "next": "",
     "cls": "unreachable: only called by Program.Peephole, whose only call is under `if false` (watched_calls fact); "
            "body is set insertion", "lean": "C08_setCopy_perm_invariant (same fold shape)"},
    {"file": "compiler/ssa/set.go", "func": "Set.Array", "expr": "set", "type": "ssa.Set", "vars": "_,v",
     "under_if_false": False, "body": "{ result = append(result, v) }",
     "next": "sort.Slice(result, func(i, j int) bool { return result[i].ID < result[j].ID })",
     "cls": "collect then sort by ID (no caller in the compile path)", "lean": "C08_sortByKey_perm_invariant"},
    {"file": "compiler/ssa/set.go", "func": "Set.Copy", "expr": "set", "type": "ssa.Set", "vars": "k,v",
     "under_if_false": False, "body": "{ result[k] = v }", "next": "return result",
     "cls": "map copy (called by Rule.Match <- Peephole only)", "lean": "C08_setCopy_perm_invariant"},
    {"file": "compiler/ssa/set.go", "func": "Set.Subtract", "expr": "o", "type": "ssa.Set", "vars": "_,v",
     "under_if_false": False, "body": "{ set.Remove(v) }", "next": "",
     "cls": "map deletions (no caller)", "lean": "C08_setSubtract_perm_invariant"},
    {"file": "compiler/ssa/streamer.go", "func": "Program.Stream", "expr": "istats", "type": "map[string]circuit.Stats",
     "vars": "k", "under_if_false": False, "body": "{ keys = append(keys, k) }",
     "next": "sort.Slice(keys, func(i, j int) bool { return istats[keys[i]].Cost() > istats[keys[j]].Cost() })",
     "cls": "diagnostics table printed to stdout under params.Diagnostics; ties in Cost() make the row order depend on "
            "the hand-over order (C08_defineConstants_needs_distinct_names shape) - not part of circuit or SSA listing",
     "lean": "-"},
    {"file": "compiler/utils/params.go", "func": "Params.SaveSymbolIDs", "expr": "p.SymbolIDs", "type": "map[string]int",
     "vars": "key", "under_if_false": False,
     "body": "{ keys = append(keys, key) if len(key) > max { max = len(key) } }", "next": "sort.Strings(keys)",
     "cls": "collect keys (distinct) then sort + maximum; file output of apps/garbled -sids",
     "lean": "C08_sorted_perm_unique shape, C08_maxLen_perm_invariant"},
    {"file": "types/types.go", "func": "Type.String", "expr": "Types", "type": "map[string]types.Type", "vars": "k,v",
     "under_if_false": False, "body": "{ if v == t { return k } }", "next": "return fmt.Sprintf(\"{Type %d}\", t)",
     "cls": "search for the key of a value (values distinct, checked at run time on types.Types)",
     "lean": "C08_findKey_perm_invariant"},
]
SITE_KEYS = ("file", "func", "expr", "type", "vars", "under_if_false", "body", "next")

# package-level variables of the compile path (state that could survive a compilation)
PKG_VARS = [
    ("circuit", "bo", "binary.bigEndian"), ("circuit", "floatCvt", "circuit.FloatCvt"),
    ("circuit", "intCvt", "circuit.IntCvt"), ("circuit", "ioHeaders", "[]string"),
    ("circuit", "reHexInput", "*regexp.Regexp"), ("circuit", "reParts", "*regexp.Regexp"),
    ("circuit", "reVar", "*regexp.Regexp"), ("circuit", "templates", "[6]*circuit.Template"),
    ("compiler", "binaryTypes", "map[compiler.TokenType]ast.BinaryType"), ("compiler", "leaves", "map[string]bool"),
    ("compiler", "pkgPaths", "[]*compiler.pkgPath"), ("compiler", "symbols", "map[string]compiler.TokenType"),
    ("compiler", "tokenTypes", "map[compiler.TokenType]string"),
    ("compiler", "unaryTypes", "map[compiler.TokenType]ast.UnaryType"),
    ("compiler/ast", "binaryTypes", "map[ast.BinaryType]string"), ("compiler/ast", "builtins", "map[string]ast.Builtin"),
    ("compiler/ast", "re1stSentence", "*regexp.Regexp"), ("compiler/ast", "unaryTypes", "map[ast.UnaryType]string"),
    ("compiler/circuits", "multiplierArrayTresholds", "map[int]int"), ("compiler/circuits", "sizeofGate", "uint64"),
    ("compiler/circuits", "sizeofWire", "uint64"),
    ("compiler/ssa", "Undefined", "ssa.Value"), ("compiler/ssa", "circuitGenerators", "map[ssa.Operand]ssa.NewCircuit"),
    ("compiler/ssa", "errNotConstant", "error"), ("compiler/ssa", "maxOperandLength", "int"),
    ("compiler/ssa", "operands", "map[ssa.Operand]string"), ("compiler/ssa", "reSpace", "*regexp.Regexp"),
    ("compiler/ssa", "rules", "[]*ssa.Rule"),
    ("compiler/utils", "reConst", "*regexp.Regexp"), ("compiler/utils", "reConstEnd", "*regexp.Regexp"),
    ("compiler/utils", "reConstStart", "*regexp.Regexp"), ("compiler/utils", "targetNames", "map[utils.Target]string"),
    ("types", "Bool", "types.Info"), ("types", "Byte", "types.Info"), ("types", "Int32", "types.Info"),
    ("types", "Nil", "types.Info"), ("types", "Rune", "types.Info"), ("types", "Types", "map[string]types.Type"),
    ("types", "Uint32", "types.Info"), ("types", "Uint64", "types.Info"), ("types", "Undefined", "types.Info"),
    ("types", "reArr", "*regexp.Regexp"), ("types", "reSized", "*regexp.Regexp"),
    ("types", "shortTypes", "map[types.Type]string"),
]

# the objects a Compiler holds (Lean: Cache = Initialized flags + NumInstances; dropped by resetPackages)
STRUCTS = {
    "compiler.Compiler": ["params *utils.Params", "packages map[string]*ast.Package", "pkgPath string"],
    "ast.Package": ["Name string", "Source string", "Annotations Annotations", "Initialized bool",
                    "Imports map[string]string", "Bindings *ssa.Bindings", "Types []*TypeInfo",
                    "Constants []*ConstantDef", "Variables []*VariableDef", "Functions map[string]*Func"],
    "ast.Func": ["Name string", "This *Variable", "Args []*Variable", "Return []*Variable", "Returns []*ReturnInfo",
                 "NamedReturn bool", "Body List", "End utils.Point", "NumInstances int", "Annotations Annotations"],
    "ssa.Generator": ["Params *utils.Params", "versions map[string]Value", "blockID BlockID",
                      "constants map[string]ConstantInst", "nextValID ValueID"],
}

WATCHED_CALLS = [
    {"callee": "(*ssa.Program).Peephole", "file": "compiler/ast/package.go", "func": "Package.Compile", "under_if_false": True},
    {"callee": "(*ssa.Program).liveness", "file": "compiler/ssa/peephole.go", "func": "Program.Peephole", "under_if_false": False},
    {"callee": "(*ssa.Rule).Match", "file": "compiler/ssa/peephole.go", "func": "Program.Peephole", "under_if_false": False},
    {"callee": "(ssa.Set).Copy", "file": "compiler/ssa/peephole.go", "func": "Rule.Match", "under_if_false": False},
]

# repair 6aa1568: the loops over the imports iterate the sorted alias list
SORTED_IMPORT_LOOPS = [
    {"expr": "pkg.SortedImports()", "file": "compiler/ast/package.go", "func": "Package.Init", "under_if_false": False},
    {"expr": "pkg.SortedImports()", "file": "compiler/compiler.go", "func": "Compiler.parse", "under_if_false": False},
]
# repair 1e863b8: every Compiler method that generates code (calls ast.NewCodegen) has the top-level statement
# `c.resetPackages()` before its first `c.parse(`
CODEGEN_ENTRIES = [
    {"func": "Compiler.CompileSSA", "reset_before_parse": True},
    {"func": "Compiler.Stream", "reset_before_parse": True},
    {"func": "Compiler.compile", "reset_before_parse": True},
]
FUNC_BODIES = {
    "Compiler.resetPackages": "{ c.packages = make(map[string]*ast.Package) }",
    "Package.SortedImports": "{ aliases := make([]string, 0, len(pkg.Imports)) for alias := range pkg.Imports "
                             "{ aliases = append(aliases, alias) } sort.Strings(aliases) return aliases }",
}

# ------------------------------------------------------------------ semantic facts (obligations)
# Every `range` over a map, abstracted: (package, which map: .Field / pkgvar:Name / local, type shape with
# unexported names blanked, kind of loop, detail, reachable from the Compiler entry points / init functions by
# the static call graph with `if false` ignored).  `$k`/`$v` = loop key / value, `$s` = the collecting slice,
# `$m` = the ranged map, `$0`/`$1` = the comparator's parameters.  Each row names its Lean obligation.
SEM_SITES = [
    (["compiler/ast", ".Imports", "map[string]string", "collect-then-sort", "collect $k; sort.Strings", True],
     "Package.SortedImports", "C08_sortedImports_perm_invariant (+ C08_init_perm_invariant, C08_parse_perm_invariant)"),
    (["compiler/ssa", ".Constants", "map[string]ssa.ConstantInst", "collect-then-sort",
      "collect $v.Const; sort.Slice less: strings.Compare($s[$0].Name, $s[$1].Name) == -1", True],
     "Program.DefineConstants", "C08_defineConstants_perm_invariant, C08_sorted_perm_unique"),
    (["compiler/ssa", ".Live", "ssa.Set", "calls", "fmt.Fprintf", False], "Program.PP (under `if false`)", "-"),
    (["compiler/ssa", "local", "map[string]circuit.Stats", "collect-then-sort",
      "collect $k; sort.Slice less: $m[$s[$0]].Cost() > $m[$s[$1]].Cost()", True],
     "Program.Stream diagnostics table (stdout under params.Diagnostics only; ties in Cost() keep hand-over order)", "-"),
    (["compiler/ssa", "local", "ssa.Set", "calls", "Set.Add", False], "Program.liveness (Peephole disabled)",
     "C08_setCopy_perm_invariant shape"),
    (["compiler/ssa", "local", "ssa.Set", "calls", "Set.Remove", False], "Set.Subtract", "C08_setSubtract_perm_invariant"),
    (["compiler/ssa", "local", "ssa.Set", "collect-then-sort", "collect $v; sort.Slice less: $s[$0].ID < $s[$1].ID", False],
     "Set.Array", "C08_sortByKey_perm_invariant"),
    (["compiler/ssa", "local", "ssa.Set", "copy-by-key", "dst[$k] = $v", False], "Set.Copy", "C08_setCopy_perm_invariant"),
    (["compiler/ssa", "pkgvar:\u00b7", "map[ssa.Operand]string", "find-key-by-value",
      "first entry whose value equals the sought one yields its key", True], "peephole init", "C08_findKey_perm_invariant"),
    (["compiler/ssa", "pkgvar:\u00b7", "map[ssa.Operand]string", "max", "len($v)", True], "instructions init",
     "C08_maxLen_perm_invariant"),
    (["compiler/utils", ".SymbolIDs", "map[string]int", "collect-then-sort", "collect $k; max len($k); sort.Strings", False],
     "Params.SaveSymbolIDs (apps/garbled -sids)", "C08_sorted_perm_unique shape, C08_maxLen_perm_invariant"),
    (["types", "pkgvar:Types", "map[string]types.Type", "find-key-by-value",
      "first entry whose value equals the sought one yields its key", True], "Type.String", "C08_findKey_perm_invariant"),
]
SEM_KEYS = ("pkg", "what", "type", "kind", "detail", "reachable")

# functions iterating the result of the function that holds the `.Imports` collect-then-sort site
# (declared receiver type + exported name; unexported names blanked): Package.Init and Compiler.parse
SORTED_IMPORT_USERS = ["Compiler.\u00b7", "Package.Init"]
# Compiler methods that create a Codegen: fresh package table before any other use of the Compiler
CODEGEN_ENTRIES_SEM = [
    {"fresh_table_before_any_use": True, "func": "Compiler.CompileSSA"},
    {"fresh_table_before_any_use": True, "func": "Compiler.Stream"},
    {"fresh_table_before_any_use": True, "func": "Compiler.\u00b7"},
]
STRUCT_SHAPES = {
    "ast.Func": {"exported": ["Annotations ast.Annotations", "Args []*ast.Variable", "Body ast.List", "End utils.Point",
                              "Name string", "NamedReturn bool", "NumInstances int", "Return []*ast.Variable",
                              "Returns []*ast.ReturnInfo", "This *ast.Variable"], "unexported_types": []},
    "ast.Package": {"exported": ["Annotations ast.Annotations", "Bindings *ssa.Bindings", "Constants []*ast.ConstantDef",
                                 "Functions map[string]*ast.Func", "Imports map[string]string", "Initialized bool",
                                 "Name string", "Source string", "Types []*ast.TypeInfo", "Variables []*ast.VariableDef"],
                    "unexported_types": []},
    "compiler.Compiler": {"exported": [], "unexported_types": ["*utils.Params", "map[string]*ast.Package", "string"]},
    "ssa.Generator": {"exported": ["Params *utils.Params"],
                      "unexported_types": ["map[string]ssa.ConstantInst", "map[string]ssa.Value", "ssa.BlockID", "ssa.ValueID"]},
}
# package-level variables: exported ones by name, all by type shape (multiset per package)
EXPORTED_PKG_VARS = {"Undefined", "Bool", "Byte", "Int32", "Nil", "Rune", "Types", "Uint32", "Uint64"}
_U = "\u00b7"


def _shape(t):
    import re
    return re.sub(r"\b([a-z][A-Za-z0-9_]*)\.([a-z_][A-Za-z0-9_]*)\b", lambda m: m.group(1) + "." + _U, t)


def pkg_var_shapes():
    return sorted([p, n if n in EXPORTED_PKG_VARS else _U, _shape(t)] for p, n, t in PKG_VARS)


RAND_USES = [
    {"file": "compiler/circuits/allocator.go", "import": "unsafe"},     # unsafe.Sizeof for statistics
    {"file": "compiler/ssa/streamer.go", "import": "crypto/rand"},      # garbling key of the streaming mode (not compilation)
]


def check_facts(ctx, facts):
    """Obligations compare SEMANTIC abstractions (robust against renames of unexported identifiers, moved
    declarations, append <-> indexed fill ...); the source-text tables are advisories: their semantic content is
    decided by the semantic facts, the cross-process / history oracle and the model correspondence."""
    import os
    if not isinstance(facts, dict) or not isinstance(facts.get("semantic"), dict):
        ctx.oblige("facts extracted with go/types from the compile path", False, str(facts)[:2000])
        return []
    sem = facts["semantic"]
    ctx.oblige("go/types loaded the compile-path packages without type errors", not facts.get("type_errors"),
               json.dumps(facts.get("type_errors")))
    got = [[m.get(k) for k in SEM_KEYS] for m in sem.get("sites") or []]
    want = [row for row, _, _ in SEM_SITES]
    new = [g for g in got if g not in want]
    gone = [w for w in want if w not in got]
    where = {json.dumps([m.get(k) for k in SEM_KEYS]): "%s %s:%s" % (m.get("func"), m.get("file"), m.get("line"))
             for m in sem.get("sites") or []}
    ctx.oblige("every `range` over a map in the compile path has a Lean obligation (no new or changed site)", not new,
               "map-range site(s) without obligation:\n" + "\n".join("%s   at %s" % (json.dumps(g), where.get(json.dumps(g))) for g in new))
    ctx.oblige("every map-range site with an obligation still exists with the same abstraction", not gone,
               "missing: %s" % json.dumps(gone))
    ctx.fact("map-range sites (which map, kind of loop, sort that follows, reachability) as a multiset",
             sorted(json.dumps(g) for g in got), sorted(json.dumps(w) for w in want))
    ctx.coverage["map_range_sites"] = [{"site": where.get(json.dumps(row), src), "abstraction": row, "where_in_design": src,
                                        "lean": lean} for row, src, lean in SEM_SITES]
    ctx.fact("repair 6aa1568 present: the functions iterating the sorted alias list are Package.Init and one Compiler method",
             sem.get("sorted_import_users"), SORTED_IMPORT_USERS)
    ctx.fact("repair 1e863b8 present: every Compiler method creating a Codegen installs a fresh package table before "
             "it uses anything else of the Compiler", sem.get("codegen_entries_sem"), CODEGEN_ENTRIES_SEM)
    ctx.fact("package-level variables of the compile path by type shape (state that could survive a compilation)",
             sem.get("pkg_var_shapes"), pkg_var_shapes())
    ctx.fact("fields of Compiler / ast.Package / ast.Func / ssa.Generator by shape (what a Compiler holds)",
             sem.get("struct_shapes"), STRUCT_SHAPES)
    ctx.fact("no `go` / `select` statements in the compile path", facts.get("go_stmts") or [], [])
    ctx.fact("math/rand, crypto/rand, unsafe, reflect, %p uses in the compile path (per package)",
             sorted({(os.path.dirname(r["file"]), r["import"]) for r in facts.get("rand_uses") or []}),
             sorted({(os.path.dirname(r["file"]), r["import"]) for r in RAND_USES}))
    # ---- advisories: literal source text
    ctx.advise("source text of the map-range sites (file, function, ranged expression, loop body, following statement)",
               [{k: m.get(k) for k in SITE_KEYS} for m in (facts.get("map_ranges") or [])],
               [{k: m[k] for k in SITE_KEYS} for m in SITES])
    ctx.advise("names of the package-level variables", [[v["pkg"], v["name"], v["type"]] for v in facts.get("pkg_vars") or []],
               [list(v) for v in PKG_VARS])
    ctx.advise("field lists of Compiler / ast.Package / ast.Func / ssa.Generator as written", facts.get("structs"), STRUCTS)
    ctx.advise("call sites of Peephole/liveness/Rule.Match/Set.Copy/Subtract/Array/SaveSymbolIDs by name",
               facts.get("watched_calls") or [], WATCHED_CALLS)
    ctx.advise("loops written as `range pkg.SortedImports()`", facts.get("sorted_import_loops") or [], SORTED_IMPORT_LOOPS)
    ctx.advise("`c.resetPackages()` written before `c.parse(` in compile / CompileSSA / Stream",
               facts.get("codegen_entries") or [], CODEGEN_ENTRIES)
    ctx.advise("bodies of Compiler.resetPackages and Package.SortedImports as written", facts.get("func_bodies") or {}, FUNC_BODIES)
    # the new / changed sites as records (function, file, who reaches it): they focus the width sweep
    return [m for m in sem.get("sites") or [] if [m.get(k) for k in SEM_KEYS] in new]


def sweep_focus(new_sites):
    """Operator groups of the width sweep for new / changed map-range sites: the groups whose builders (exported
    functions of compiler/circuits) reach the function holding the site; `all` when none does."""
    groups = set()
    for m in new_sites:
        names = [m.get("func_name") or ""] + list(m.get("reached_from") or [])
        hit = {g for g, kws in SWEEP_GROUPS.items() for n in names if n.startswith("circuits.") for kw in kws if kw in n}
        groups |= hit or {"all"}
    return sorted(groups)


def sweep_run(ctx, facts, seed, focus=None, tag="", prefix=""):
    """Width sweep (harness sweep.go).  Returns the meta of the run."""
    tables = ((facts or {}).get("semantic") or {}).get("int_tables") or []
    tf = os.path.join(ctx.work, "int_tables.json")
    json.dump(tables, open(tf, "w"))
    extra = "facts=" + tf + (";focus=" + ",".join(focus) if focus else "")
    ops, out, meta = ctx.run_hx("sweep", 8, seed=seed, extra_args=["-extra", extra], tag=tag,
                                timeout=170 if ctx.tier == "quick" and not focus else 1500)
    ctx.absorb_meta(meta, prefix=prefix)
    ctx.coverage.setdefault("sweep_runs", []).append(
        {k: meta.get(k) for k in ("sweep_programs", "sweep_widths", "sweep_widths_compiled", "sweep_processes",
                                  "sweep_processes_ok", "sweep_int_tables", "sweep_ms", "sweep_children_ms", "sweep_mthr_ms",
                                  "sweep_programs_with_different_outputs")} | {"seed": seed, "focus": focus or []})
    ctx.oblige("all child processes of the width sweep (seed %d%s) returned results" % (seed, " focus " + ",".join(focus) if focus else ""),
               meta.get("sweep_processes") is not None and meta.get("sweep_processes_ok") == meta.get("sweep_processes"),
               json.dumps(meta.get("harness_log", ""))[:2000])
    if os.path.exists(ops) and os.path.getsize(ops) > 0:
        ctx.correspond("multiplier limits equivalent to the default parameters at every swept width = multClass of the "
                       "width-indexed table read from the source (lookup by key, default 21, Karatsuba recursion) (seed %d)" % seed,
                       ops, out)
        distinct_ops(ctx, ops)
    return meta


def distinct_ops(ctx, ops):
    for line in open(ops, errors="replace"):
        if not line.startswith("ts "):
            ctx.distinct.add(hashlib.sha1(line.encode()).digest())


def replay_request():
    """bin/check C08 --replay F: (absolute path, parsed file) when F holds a process-state history."""
    if "--replay" not in sys.argv:
        return None, None
    try:
        f = sys.argv[sys.argv.index("--replay") + 1]
        f = f if os.path.isabs(f) else os.path.join(vlib.VERIF, f)
        doc = json.load(open(f))
    except Exception:
        return None, None
    fl = doc.get("failure") or {}
    if fl.get("sig") in ("c08-process-state-history", "c08-concurrent-compilations-data-race", SWEEP_SIG) and fl.get("replay_spec"):
        # finish() rewrites the replay file: hand the harness a copy
        cp = os.path.join(vlib.VERIF, ".work", "C08-replay-%d.json" % os.getpid())
        json.dump(doc, open(cp, "w"))
        return cp, doc
    return None, None


def new_pkgvar_packages(facts):
    """Packages of the compile path with a package-level variable that the table does not know (multiset)."""
    try:
        got = [tuple(x) for x in facts["semantic"]["pkg_var_shapes"]]
    except Exception:
        return []
    want = [tuple(x) for x in pkg_var_shapes()]
    for w in want:
        if w in got:
            got.remove(w)
    return sorted({g[0] for g in got})


def pstate_run(ctx, seed, extra="", tag="", prefix="", timeout=900, racebin=None):
    # racebin: the race-detector build of the harness; one concurrent history runs in a child process of it
    hx_extra = ";".join(x for x in (extra, "racebin=" + racebin if racebin else "") if x)
    ops, out, meta = ctx.run_hx("pstate", 8, seed=seed, extra_args=(["-extra", hx_extra] if hx_extra else []), tag=tag,
                                timeout=timeout)
    ctx.absorb_meta(meta, prefix=prefix)
    ctx.coverage.setdefault("pstate_runs", []).append(
        {k: meta.get(k) for k in ("pstate_programs", "pstate_processes", "pstate_processes_ok", "pstate_ms",
                                  "pstate_slowest_programs")} | {"seed": seed, "options": extra})
    ctx.oblige("all child processes of the process-state histories (seed %d%s) returned results" % (seed, " " + extra if extra else ""),
               meta.get("pstate_processes") is not None and meta.get("pstate_processes_ok") == meta.get("pstate_processes"),
               json.dumps(meta.get("harness_log", ""))[:2000])
    if os.path.exists(ops) and os.path.getsize(ops) > 0:
        ctx.correspond("folded wide constants of every compilation of real one-process histories = outputsAlong stepNow; "
                       "constants, NumWires-NumGates and results of every step of real histories over all step kinds = "
                       "outputsAlongK stepNowK; of every step of real concurrent history elements = runElements microNow "
                       "under a seeded schedule (seed %d%s)" % (seed, " " + extra if extra else ""), ops, out)
        distinct_ops(ctx, ops)
    return meta


def run(ctx):
    ctx.prove("MpcVerif.Props.C08", THEOREMS)
    if ctx.tier == "thorough":
        ctx.leanchecker("MpcVerif.Props.C08")
    ctx.build_drv()
    quick = ctx.tier == "quick"
    if ctx.build_hx():
        _, _, m = ctx.run_hx("facts", 0, extra_args=["-extra", vlib.REPO], timeout=600)
        if m.get("facts_error") or m.get("harness_rc"):
            ctx.oblige("facts extracted with go/types from the compile path", False,
                       m.get("facts_error") or m.get("harness_log", ""))
            new_sites = []
        else:
            new_sites = check_facts(ctx, m.get("facts"))
        # ---- --replay of a process-state history: exactly the recorded history and its reference, each in a
        # fresh process; a reproduced difference decides the run
        # the race-detector build of the harness (go build -race): one concurrent history of every pstate run and
        # the replay of a data-race report run in a child process of it
        racebin = ctx.build_hx(race=True)
        rp, rdoc = replay_request()
        if rp and (rdoc.get("failure") or {}).get("sig") == SWEEP_SIG:
            # --replay of a width-sweep program: exactly the recorded program, the recorded number of fresh processes
            # and compilations per process
            _, _, rm = ctx.run_hx("sweep", 8, extra_args=["-extra", "replay=" + rp], tag="-replay", timeout=900)
            ctx.absorb_meta(rm, prefix="replay_")
            ctx.coverage["replayed_program"] = rm.get("replay") or rm.get("replay_error")
            print("replayed program: %s" % json.dumps(rm.get("replay") or rm.get("replay_error"))[:1500])
            os.remove(rp)
            rp = None
            if ctx.fails:
                ctx.coverage["rule"] = "replay of one recorded width-sweep program (the full check was not run)"
                return ctx.finish("Replay: the recorded program was compiled again in the recorded number of fresh "
                                  "processes, the recorded number of times in each (up to 3 rounds: which outputs appear "
                                  "is the runtime's choice); the compilations still give different outputs.")
            print("the replayed program no longer gives different outputs; running the full check")
        if rp:
            _, _, rm = ctx.run_hx("pstate", 8, extra_args=["-extra", "replay=" + rp + (";racebin=" + racebin if racebin else "")],
                                  tag="-replay", timeout=600)
            ctx.absorb_meta(rm, prefix="replay_")
            ctx.coverage["replayed_history"] = rm.get("replay") or rm.get("replay_error")
            print("replayed history: %s" % json.dumps(rm.get("replay") or rm.get("replay_error"))[:1500])
            os.remove(rp)
            if ctx.fails:
                ctx.coverage["rule"] = "replay of one recorded process-state history (the full check was not run)"
                return ctx.finish("Replay: the recorded history and its reference were re-run, each in a fresh process; "
                                  "the outputs of the same program still differ (a history with concurrent elements is "
                                  "re-run up to 8 times: the schedule is the runtime's; a data-race report is replayed by "
                                  "running the recorded history again in a child built with the race detector).")
            print("the replayed history no longer gives a different output; running the full check")
        # ---- width sweep: one operator per program over the operand widths; then, for a new / changed map-range
        # site, the focused sweep over the operators whose builders reach the function holding the site
        sm = sweep_run(ctx, m.get("facts"), ctx.seed)
        cs = ctx.coverage.get("counters", {})
        nprog = cs.get("sweep_programs", 0)
        ctx.oblige("width sweep: >= 600 programs, >= 95% compile, every operator, both targets and signednesses, widths of "
                   "the range 1..130, powers of two and table boundaries, every program >= 8 compilations in 8 processes",
                   nprog >= 600 and 20 * cs.get("sweep_programs_compiled", 0) >= 19 * nprog and
                   all(cs.get("sweep_programs_op_" + op, 0) > 0 for op in SWEEP_OPS) and
                   all(cs.get(k, 0) > 0 for k in ("sweep_programs_variant_1", "sweep_programs_variant_2", "sweep_programs_signed",
                                                  "sweep_programs_unsigned", "sweep_widths_range-1-130", "sweep_widths_power-of-two")) and
                   (not sm.get("sweep_int_tables") or cs.get("sweep_widths_table-midpoint", 0) > 0) and
                   cs.get("sweep_programs_with_8plus_compilations_in_8plus_processes", 0) == nprog,
                   json.dumps({k: v for k, v in cs.items() if k.startswith("sweep_") and "compile_ms" not in k}))
        ctx.oblige("model ops of kind mthr were produced (multiplier limits at the swept widths, non-trivial classes)",
                   cs.get("op_mthr", 0) >= 20 and cs.get("op_mthr_nontrivial_class", 0) >= 10 and cs.get("op_mthr_gmw", 0) > 0,
                   json.dumps({k: v for k, v in cs.items() if k.startswith("op_mthr")}))
        ctx.coverage["new_map_range_sites"] = [{k: s.get(k) for k in ("pkg", "func_name", "file", "line", "kind", "reachable",
                                                                      "reached_from")} for s in new_sites]
        if new_sites and not ctx.fails:
            fg = sweep_focus(new_sites)
            ctx.coverage["sweep_focus"] = fg
            sweep_run(ctx, m.get("facts"), ctx.seed + 7, focus=fg, tag="-focus", prefix="focus_")
        # ---- process-state histories over sibling groups (every history in its own process)
        pm = pstate_run(ctx, ctx.seed, racebin=racebin)
        c0 = ctx.coverage.get("counters", {})
        ctx.oblige("process-state histories: every generator family compiled programs (>= 90% of all compile), processes of "
                   "all four kinds ran, comparisons within a process and across processes, long-lived and fresh Compilers",
                   all(c0.get("pstate_programs_compiled_" + f, 0) > 0 for f in PSTATE_FAMILIES) and
                   10 * c0.get("pstate_programs_compiled", 0) >= 9 * (pm.get("pstate_programs") or 1) and
                   all(c0.get("pstate_processes_" + k, 0) > 0 for k in ("one-compiler", "fresh-compilers", "mixed", "cross-facility")) and
                   all(c0.get(k, 0) > 0 for k in ("pstate_comparisons_same_process", "pstate_comparisons_cross_process",
                                                  "pstate_compilations_fresh_compiler", "pstate_compilations_long_lived_compiler")),
                   json.dumps({k: v for k, v in c0.items() if k.startswith("pstate_")}))
        ctx.oblige("model ops of kind phist were produced (folded constants along histories)", c0.get("op_phist", 0) > 0,
                   json.dumps({k: v for k, v in c0.items() if k.startswith("op_phist")}))
        ctx.oblige("histories over all step kinds: steps of every kind ran to the end, streaming sessions recycled arguments, "
                   "compilations were compared right after streaming sessions and after the other activities, circuits "
                   "compiled inside Compute / Garble-Eval / round-trip steps joined the comparisons",
                   all(c0.get("pstate_steps_ok_" + k, 0) > 0 for k in PSTATE_KINDS) and
                   c0.get("pstate_streaming_sessions_recycling_arguments", 0) > 0 and
                   c0.get("pstate_comparisons_after_streaming_session", 0) >= 10 and
                   c0.get("pstate_comparisons_after_activities", 0) >= 40 and
                   c0.get("pstate_comparisons_step_outputs", 0) >= 10 and
                   all(c0.get("pstate_compilations_inside_" + k, 0) > 0 for k in ("compute", "garble-eval", "roundtrip", "compile-file")) and
                   all(c0.get("pstate_processes_" + k, 0) > 0 for k in ("activities", "cross-activities")),
                   json.dumps({k: v for k, v in c0.items() if k.startswith("pstate_step") or "activities" in k or "streaming" in k
                               or k.startswith("pstate_compilations_inside")}))
        ctx.oblige("model ops of kind ahist were produced (histories over all step kinds: compile, streaming session, "
                   "Compute, Garble/Eval, round trip, CompileSSA)",
                   c0.get("op_ahist", 0) > 0 and all(c0.get("op_ahist_steps_" + k, 0) > 0 for k in "CSEGRA"),
                   json.dumps({k: v for k, v in c0.items() if k.startswith("op_ahist")}))
        ncs = c0.get("pstate_concurrent_steps", 0)
        ctx.oblige("concurrent history elements: k = 2..8 goroutines each, same program / different programs / mixed / with "
                   "other step kinds, GOMAXPROCS default and set, >= 90% of the steps overlapped in time with a peer, programs "
                   "rich in int64 constants among them, every step joined the comparison of its program, the sequential "
                   "compilations after the elements too; one concurrent history ran under the race detector",
                   all(c0.get("pstate_concurrent_elements_k%d" % k, 0) > 0 for k in range(2, 9)) and
                   all(c0.get("pstate_concurrent_elements_" + k, 0) > 0 for k in ("same_program", "different_programs", "mixed",
                                                                                  "with_other_step_kinds")) and
                   c0.get("pstate_concurrent_processes_gomaxprocs_default", 0) > 0 and
                   c0.get("pstate_concurrent_processes_gomaxprocs_set", 0) > 0 and
                   ncs >= 100 and 10 * c0.get("pstate_concurrent_steps_overlapping_in_time", 0) >= 9 * ncs and
                   c0.get("pstate_concurrent_steps_const_rich", 0) >= 20 and
                   c0.get("pstate_comparisons_concurrent_compilation", 0) >= 100 and
                   all(c0.get("pstate_processes_" + k, 0) > 0 for k in ("concurrent", "cross-concurrent")) and
                   (racebin is None or c0.get("pstate_race_detector_processes", 0) > 0),
                   json.dumps({k: v for k, v in c0.items() if "concurrent" in k or "race" in k}))
        ctx.oblige("model ops of kind chist were produced (histories with concurrent elements under seeded schedules)",
                   c0.get("op_chist", 0) > 0 and c0.get("op_chist_concurrent_elements", 0) >= 3,
                   json.dumps({k: v for k, v in c0.items() if k.startswith("op_chist")}))
        newpk = new_pkgvar_packages(m.get("facts") or {})
        ctx.coverage["packages_with_new_package_level_variables"] = newpk
        if ctx.widen:
            # widened history search: a package-level variable the table does not know (state that could survive a
            # compilation) focuses the search on the facilities of its package; other drifts widen over all families
            fams = sorted({f for pk in newpk for f in PKG_FAMILIES.get(pk, PSTATE_FAMILIES)}) or PSTATE_FAMILIES
            ctx.coverage["widened_pstate_focus"] = fams
            for k in range(1, 4):
                if ctx.fails:
                    break
                pstate_run(ctx, ctx.seed + 100 * k, extra="focus=%s;scale=%d;heavy=1;acts=full;conc=full" % (",".join(fams), 1 if len(fams) > 3 else 2),
                           tag="-widen", prefix="widen%d_" % k, racebin=racebin)
        runs = [(ctx.seed, 6 if quick else 8, [])]
        if not quick:
            # further seeds: light corpus (quick-tier programs, 40 generated ones each)
            runs += [(ctx.seed + 1000, 8, ["-extra", "light"]), (ctx.seed + 2000, 8, ["-extra", "light"])]
        progs = 0
        for seed, nchild, extra in runs:
            ops, out, meta = ctx.run_hx("oracle", nchild, seed=seed, extra_args=extra, timeout=170 if quick else 1000)
            ctx.absorb_meta(meta, prefix="" if seed == ctx.seed else "s%d_" % seed)
            progs += meta.get("programs", 0)
            ctx.coverage.setdefault("oracle_runs", []).append(
                {k: meta.get(k) for k in ("programs", "k_same_instance", "fresh_instances", "child_processes",
                                          "children_ok", "inprocess_ms")} | {"seed": seed})
            ctx.oblige("all child processes of the oracle (seed %d) returned results" % seed,
                       meta.get("children_ok") == meta.get("child_processes"), json.dumps(meta.get("harness_log", ""))[:2000])
            ctx.correspond("DefineConstants order, Type.String, Package.Init blocks, cross-compilation state (seed %d)" % seed,
                           ops, out)
            distinct_ops(ctx, ops)
        if ctx.widen:
            # an advisory drifted (the source was rewritten): one more oracle run on other generated programs
            ops, out, meta = ctx.run_hx("oracle", 6, seed=ctx.seed + 500, extra_args=["-extra", "light"], tag="-widen",
                                        timeout=600)
            ctx.absorb_meta(meta, prefix="widen_")
            progs += meta.get("programs", 0)
            ctx.correspond("widened: model ops (seed %d)" % (ctx.seed + 500), ops, out)
            distinct_ops(ctx, ops)
        c = ctx.coverage.get("counters", {})
        ctx.coverage["programs"] = progs + (pm.get("pstate_programs") or 0)
        ctx.evaluations += sum(v for k, v in c.items() if k.endswith("compilations"))
        ctx.oblige("corpus: at least 25 programs compiled, of which at least 8 with two or more package initialiser blocks",
                   sum(v for k, v in c.items() if k.endswith("programs_compiled")) >= 25 and
                   sum(v for k, v in c.items() if k.endswith("programs_with_2plus_init_blocks")) >= 8,
                   json.dumps({k: v for k, v in c.items() if "programs" in k}))
        ctx.oblige("oracle made cross-process, fresh-instance, same-instance and history-chain comparisons",
                   all(c.get(k, 0) > 0 for k in ("comparisons_cross_process", "comparisons_fresh_instance",
                                                 "comparisons_same_instance", "comparisons_history_chain")),
                   json.dumps({k: v for k, v in c.items() if k.startswith("comparisons")}))
        ctx.oblige("histories with failing compilations were run: every failure kind, every entry point",
                   all(c.get(k, 0) > 0 for k in (
                       "comparisons_history_with_failure", "failing_compilations_parse-error",
                       "failing_compilations_unknown-import", "failing_compilations_undefined-name-at-start-of-main",
                       "failing_compilations_undefined-name-at-end-of-main",
                       "failing_compilations_error-inside-imported-function-instance",
                       "failing_compilations_via_Compile", "failing_compilations_via_CompileFile",
                       "failing_compilations_via_CompileSSA", "failing_compilations_via_Stream")),
                   json.dumps({k: v for k, v in c.items() if "failing" in k or "history_with_failure" in k}))
        ctx.oblige("model ops of all five kinds were produced (dc, ts, init, hist, fhist)",
                   all(c.get(k, 0) > 0 for k in ("op_dc_nontrivial", "op_ts", "op_init_two_or_more_blocks", "op_hist",
                                                 "op_fhist")),
                   json.dumps({k: v for k, v in c.items() if k.startswith("op_")}))
    ctx.coverage["rule"] = (
        "corpus = apps/garbled/examples that compile within the tier's time budget (with input sizes where main is "
        "unsized), testsuite programs (sizes from the first @Test line), two hand-written programs importing "
        "aes/hex/hkdf, seeded generated programs importing 2-4 generated library packages (package-level const/var/"
        "make, nested imports, real packages math/hex/hkdf) and programs with two same-named packages; each compiled "
        "3x on one Compiler, 2-4x on fresh instances, once per child process (different GOMAXPROCS/GOGC), once on a "
        "long-lived Compiler after other programs, and (importing programs) after FAILING compilations of variants "
        "of itself (parse error, unknown import, undefined name at start/end of main, error inside an imported "
        "function instance) through Compile / CompileFile / CompileSSA / Stream and after CompileSSA of itself; 3 parameter variants (default, prune, prune+GMW). "
        "Process-state histories: per facility family (wide-const-divmod/-arith/-bits, runtime-ops, const-aggregates, "
        "library, sizes-params) seeded sibling groups of 7-8 programs that differ in one attribute of the request "
        "(operand sizes with equal maximum, swapped sizes, values, type width, signedness, operator set, input sizes, "
        "parameter variant) plus an evictor; per group three child processes (one Compiler forward/reversed/shuffled; "
        "fresh Compilers reversed/forward; mixed) and two processes over all groups; all compilations of one program "
        "compared (circuit bytes + SSA listing). Histories over all step kinds: per group one more child process "
        "`C v; K1 a1; C v; K2 a2; C v'; ...` with K running through stream / stream-file / ssa-stream / compute / "
        "garble-eval / roundtrip / compile-file / compile-ssa (the streaming kinds twice; thorough tier and widened "
        "search: every kind again with same-width and other-width actors), v the victim and a sibling of its argument "
        "widths, a_i siblings, seeded inputs; GOGC=off, alternately GOMAXPROCS=1; one process over all groups; every "
        "circuit compiled inside a step joins the comparison of its program, steps of one (program, kind, inputs) are "
        "compared as a whole. Concurrent history elements: per group one more child process whose elements are k = 2..8 "
        "goroutines started from a barrier, each step with its own Compiler and Params (same program x k; k siblings; the "
        "victim twice + siblings + programs of the families const-rich / const-aggregates), 1 round for the wide-constant "
        "families and 3 for the others (one more in the thorough tier / widened search), followed by sequential "
        "compilations of the victim and a sibling; one process over all groups with 4 (8) elements of 8 goroutines that "
        "also run compile-file / compile-ssa / compute / roundtrip steps; GOMAXPROCS default, 4, 2, 8; family const-rich: "
        "struct fields, array indexing with modular offsets, slices, len, string bytes, shifts - several hundred int64 "
        "constants per program, siblings differ in one of offset / strings / slice bounds / rounds / added constants; one "
        "concurrent history (victims of the cheap groups, const-rich programs; 3-4 goroutines) in a child built with "
        "go build -race. Width sweep: one operator per program `func main(a, b T) R { return a OP b }` for * / % + - < <= > "
        ">= == != and one program with & | ^ and a select; T = uint<w> / int<w> (quick tier: one signedness per width and "
        "operator, alternating with the seed); variants prune and prune+GMW; widths: quick tier the third of 1..130 with "
        "w % 3 == seed % 3 (VERIF_SEED=1,2,3 cover all), thorough tier all of 1..130; in every tier the powers of two "
        "(<= 512 quick, <= 1024 thorough) and the midpoints (floor, ceiling) between consecutive runs of keys of every "
        "package-level table of the compile path keyed by int / types.Size (<= 520 bits quick), thorough tier also the edges "
        "of the runs (<= 1024 bits); programs above the tier's estimated compile-time cap (160 ms / 400 ms; measured on the unchanged tree: "
        "GMW dividers ~1 s at 64 bits, ~5 s at 130) are left out; every program compiled in 8 child processes (GOMAXPROCS / "
        "GOGC varied) 2 / 1 times each by cost (thorough 4 / 2 / 1; focused sweep 8 / 4 / 2), alternately fresh and "
        "long-lived Compiler; measured on a tree with a two-outcome map-order dependence (seeded change S108): the two "
        "outcomes are close to equally likely per compilation, 8 compilations miss it with probability 2^-7. "
        "distinct = distinct dc/init/hist/phist/ahist/chist/mthr op lines")
    ctx.trusted += vlib.DEFAULT_TRUSTED + [
        "go/parser + go/types fact extractor in harness/cmd/c08/facts.go (source importer for the standard library)",
        "the SSA-listing canonicaliser/classifier in harness/cmd/c08/compile.go (names the kind of a difference in the report; every difference is a violation)",
        "Go runtime: per-process / per-iteration map iteration randomisation actually varies the hand-over order",
        "Go race detector (go build -race) and the ELF symbol table of the race build (names the package-level variable an "
        "access address lies in)",
        "width sweep: two multiplier limits with different Karatsuba recursions give different circuit bytes (the mthr "
        "correspondence would otherwise report a larger class than the model)",
    ]
    ctx.assumptions += [
        "history independence is proved for the model in which resetPackages empties everything a compilation "
        "inherits from the Compiler (fields params, packages, pkgPath pinned by fact; pkgPath is a resolved directory "
        "name, params is caller-owned) and package-level variables of the compile path are not written by a "
        "compilation (their list is pinned; writes are only observed by the oracle)",
        "C08_step_independent_of_process_state is about stepNow, which by definition does not look at the process "
        "state: it transfers to the code through the pinned list of package-level variables (none is a cache) and is "
        "probed by the process-state oracle on the enumerated facility families; facilities outside these families "
        "(and process state outside Go package-level variables, e.g. files) are not covered",
        "C08_stepNowK_independent_of_process_state is about stepNowK, which makes a new wire allocator per program and "
        "hands the state on untouched by definition: it transfers to the code through the pinned package-level "
        "variables (a pool is one), the ahist correspondence (folded constants, NumWires-NumGates = sum of the argument "
        "widths, results of sessions / Compute) and the activity histories; step kinds outside the enumerated ones "
        "(GMW / BMR sessions, apps/garbled's main loop itself, sha2pc) and histories longer than the generated ones "
        "are not covered; the allocator model covers the input wires only",
        "a history whose effect depends on which P finds a pooled object is re-run up to 3 times when it is minimised "
        "and replayed",
        "C08_concurrent_history_solo_outputs is about microNow, whose micro-steps do not look at the process state by "
        "definition: it transfers to the code through the pinned package-level variables, the race-detector run and the "
        "concurrent histories; the interleaving of real goroutines is the Go scheduler's (not controlled, not recorded): "
        "concurrent elements are repeated over rounds, k and GOMAXPROCS settings, >= 90% of their steps must overlap in "
        "time, and a history with concurrent elements is re-run up to 8 times when it is minimised and replayed; state "
        "whose write-to-read window is never hit by another goroutine in these runs and is not reported by the race "
        "detector (e.g. guarded by a lock but still order dependent) is not covered; sequential consistency of the "
        "micro-steps is assumed by the model (no torn writes)",
        "a single Compiler / Params shared by goroutines is outside the property (a Compiler holds the package table of "
        "one compilation, Params.SSAOut is one writer): every concurrent step makes its own",
        "the value model of wide constant folds (Model/Mpa.lean large paths, owned by C12) is used for unsigned "
        "uint<w> contexts with non-negative literals only",
        "order dependence outside the enumerated map-range sites (os.File.Readdirnames order of a package directory, "
        "pointer values, scheduler) is only observed by the cross-process oracle, not proved absent",
        "Params.SymbolIDs (the `intern` builtin) is documented, caller-owned state that a compilation extends; it is "
        "treated as part of the parameters (corpus programs do not use intern)",
        "sort.Slice is assumed to return a sorted permutation (C08_sorted_perm_unique then makes the result unique); "
        "the harness's expected DefineConstants order comes from a replica of the two statements whose source text "
        "is pinned by the map-range fact",
        "Compiler.packages is keyed by the import alias: two packages with the same last path element are resolved "
        "to one (deterministically since 6aa1568) - a resolution-correctness issue outside C08, see the Props header; "
        "generated programs of that shape are part of the corpus",
        "the Init / compile models abstract a package to (imports, number of package-level variables, number of "
        "make-initialised variables) and a program to its function-label sequence; circuit bytes are compared by the "
        "oracle only",
        "the listing's anonymous-value numbering inside initialiser blocks is modelled for `make` initialisers only",
        "width sweep: operand widths outside 1..130, the powers of two up to 1024 and the table boundaries under the "
        "compile-time cap are not compiled repeatedly (GMW dividers above ~27 bits quick / ~41 bits thorough, Yao "
        "dividers above ~170 / ~270 bits, Yao multipliers above ~370 / ~650 bits); operators are swept one per program with both operands of one width - an order "
        "dependence that needs mixed widths or a combination of operators is left to the other generators; an order "
        "dependence whose outcomes are far from equally likely (p < 0.3 per process) can be missed by 8 compilations",
        "C08_multiplier_table_perm_invariant is about the lookup by key with default 21 and the recursion of "
        "NewKaratsubaMultiplier (Model/WidthTable.lean); it transfers to the code through the mthr correspondence at the "
        "swept widths (limits 8..23) and the map-range site fact (no range over the table); the gates inside the array "
        "multipliers, adders and subtractors are C07's",
    ]
    return ctx.finish(
        "Theorems (Props/C08.lean): every map-range site of the compile path is permutation invariant - collect-then-"
        "sort (DefineConstants, SortedImports, Set.Array, SaveSymbolIDs) for any sorting algorithm when keys are "
        "distinct, value search (Type.String, peephole init) when values are distinct, max / map copy / map deletion "
        "unconditionally; Package.Init and Compiler.parse as whole recursive procedures give the same blocks / table "
        "for all hand-over orders of all Imports maps; a compilation's output does not depend on earlier compilations "
        "on the same Compiler (resetPackages). Refutations are kept for the pre-1e863b8 / pre-6aa1568 definitions only. "
        "Tie: go/types facts pin every map-range site (type, loop body, following statement), require both repairs, pin "
        "package-level variables and Compiler/Package/Func/Generator fields; the executable models reproduce on real "
        "programs the DefineConstants order, Type.String, the init-block order + anonymous numbering from the import "
        "graph alone (imports handed over in reverse order), and the labels of 3 successive compilations. Oracle: "
        "circuit bytes and SSA listings across same-instance / fresh-instance / cross-process / history compilations "
        "including histories with failing compilations and mixed entry points; process-state histories over sibling "
        "groups per stateful facility of the compile path, each history in its own process, a difference minimised "
        "to a concrete history (replay = that history + the program alone in a fresh process; bin/check --replay "
        "re-runs exactly these two processes); the Lean step model (source, parameters, process state) reproduces the "
        "folded wide constants of every compilation of the real histories; histories over ALL step kinds (streaming "
        "sessions, CompileFile, CompileSSA, Compute, Garble/Eval, Marshal/Parse between compilations; "
        "C08_all_step_kinds_history_independent, C08_stepNowK_independent_of_process_state, the allocator-pool "
        "theorems) with the ahist correspondence of the step model; CONCURRENT history elements (k = 2..8 compilations "
        "at the same time in one process, each with its own Compiler and Params; C08_concurrent_interleavings_frame, "
        "C08_concurrent_history_solo_outputs, the scratch-cell theorems) with the chist correspondence, compared with "
        "the sequential histories and the program alone in a fresh process, one of them under the race detector; "
        "any difference is a violation (no known finding is tolerated any more); the replay holds the program and both "
        "SSA listings.  WIDTH SWEEP: one operator per program over the operand widths (range 1..130 by thirds, powers of "
        "two, boundary widths of the integer-keyed tables of the compile path), every program compiled >= 8 times in 8 "
        "processes, focused on the builders that reach a new / changed map-range site; theorems "
        "C08_multiplier_table_perm_invariant (lookup by key: order independent), C08_nearest_key_perm_invariant / "
        "C08_nearest_key_tie_order_dependent / C08_nearest_key_tie_witness (lookup by the closest key: order independent "
        "iff all closest keys carry one value or ties are broken by a total order); mthr correspondence of the table "
        "lookup + Karatsuba recursion model.")

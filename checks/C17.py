"""C17 A circuit value is safe to share between goroutines.

proof (partial): the ownership protocol of the per-circuit scratch pool is
proved in Lean over all interleavings (Props/C17.lean); the tie to /repo is
(1) structural facts extracted with go/ast from circuit/{garble,circuit,eval,
computer}.go, (2) the logged pool events of real concurrent runs replayed on
the model, (3) the implementation-side oracle: a stress program, built with
and without the Go race detector, that compares every concurrent result with
the single-goroutine result for the same tape, (4) GC histories (mode gchist):
garblings of which the caller keeps only the data (header dropped), forced
collections, further Garble calls on the same circuit, the retained data
re-read and evaluated -- "valid until released" is about the data, whoever
holds the header (Model/PoolGC.lean, C17_retained_garbling_valid), (5) result
histories (mode rhist): circuits with 1..4 outputs of 1..1000 bits, the objects
Compute returned / the label vector Eval filled in KEPT by the caller (not
copied) and re-read after later calls on the same circuit value by the same and
by other goroutines, plain and under the race detector; the Lean model runs
Compute as a pure function returning a fresh value (Model/PoolResult.lean,
C17_compute_result_retained).
Go-memory-model data races are observable only at run time.

bin/check C17 --replay F: when F holds a failing round / GC history of the
harness (derived from (seed, index)), exactly that case is re-run.
"""
import glob
import hashlib
import json
import os
import re
import sys

import vlib

LEVEL = "proof"

THEOREMS = [
    "Mpc.Pool.inv_reachable",
    "Mpc.Pool.C17_pool_unique",
    "Mpc.Pool.C17_scratch_owned_once",
    "Mpc.Pool.C17_garble_isolated",
    "Mpc.Pool.C17_garble_result_history_free",
    "Mpc.Pool.C17_release_idempotent",
    "Mpc.Pool.seqGarble_eq_garble",
    "Mpc.Pool.C17_garble_equals_C01",
    "Mpc.Pool.C17_concurrent_garbling_evaluates_correctly",
    "Mpc.Pool.C17_contract_needed_concurrent_release",
    "Mpc.Pool.C17_contract_needed_value_copy",
    "Mpc.Pool.C17_gc_put_only_by_release_or_error_path",
    "Mpc.Pool.C17_retained_garbling_valid",
    "Mpc.Pool.C17_autorelease_breaks_retained_validity",
    "Mpc.Pool.C17_compute_result_memory_never_written",
    "Mpc.Pool.C17_compute_result_retained",
    "Mpc.Pool.C17_pooled_result_alias_breaks_retention",
]

GORACE = "halt_on_error=1 exitcode=66"

# ---------------------------------------------------------------- expected facts
# What Model/Pool.lean assumes about the Go code, as SEMANTIC abstractions of
# the source (harness/cmd/c17/effects.go): for each entry point the set of
# effects on state the call does not own -- writes through, external method
# calls on and escapes of references rooted at the receiver (named by declared
# type), a package variable, a reference-typed parameter (position + type), the
# pool object (POOL = what Circuit.garblePool points to) or a scratch it handed
# out (SCRATCH = POOL.Get()).  Same-package callees are followed with the
# origins of their arguments; local aliases, renamings, helper extraction /
# inlining, loop forms do not change the sets; reads are not effects.

EXPECT_EFFECTS = {
    # Abstract locations are named by type / role, never by the name of an unexported identifier:
    # recv:Circuit.<atomic.Pointer[sync.Pool]> = the field of Circuit of that type, POOL = what it points to,
    # SCRATCH = POOL.Get(), SCRATCH.<[]ot.Wire> = the scratch's field of that type, *scratch-struct = the struct
    # the handle's unexported pointer field points to; exported fields keep their names.
    # Garble: creates/looks up the pool with Load + CompareAndSwap of a locally built object, takes one
    # scratch, writes only the three buffers of that scratch, may Put it back; nothing of the circuit itself
    "Circuit.Garble": [
        "extcall POOL.Get",
        "extcall POOL.Put(SCRATCH)",
        "extcall recv:Circuit.<atomic.Pointer[sync.Pool]>.CompareAndSwap(fresh)",
        "extcall recv:Circuit.<atomic.Pointer[sync.Pool]>.Load",
        "write SCRATCH.<[][]ot.Label>[*]",
        "write SCRATCH.<[]ot.Label>[*]",
        "write SCRATCH.<[]ot.Wire>[*]",
    ],
    # Eval writes only its wire-label argument; Compute nothing it does not own
    "Circuit.Eval": ["write param#1([]ot.Label)[*]"],
    "Circuit.Compute": [],
    # Release: one Put of its own scratch into its own pool, clears the four fields of the handle
    "Garbled.Release": [
        "extcall recv:Garbled.<*sync.Pool>.Put(recv:Garbled.<*scratch-struct>)",
        "write recv:Garbled.<*scratch-struct>",
        "write recv:Garbled.<*sync.Pool>",
        "write recv:Garbled.Gates",
        "write recv:Garbled.Wires",
    ],
}

# renderings of statement order: ADVISORY only (their semantic content is decided by the effect sets above,
# the trace correspondence and the stress oracle)
ADVISE_RELEASE_SHAPE = {
    "cleared_after_put": ["Garbled.<*scratch-struct>", "Garbled.<*sync.Pool>", "Garbled.Gates", "Garbled.Wires"],
    "guard_returns_when": ["Garbled == nil", "Garbled.<*sync.Pool> == nil"],
    "put": "Garbled.<*sync.Pool>.Put(Garbled.<*scratch-struct>)", "put_before_clears": True, "puts": 1}
ADVISE_HANDLE = ["<*scratch-struct>=SCRATCH", "<*sync.Pool>=POOL", "Gates=SCRATCH.<[][]ot.Label>", "R=own",
                 "Wires=SCRATCH.<[]ot.Wire>"]


def norm(x):
    if isinstance(x, dict):
        return {k: norm(v) for k, v in x.items()}
    return x if x is not None else []


def check_facts(ctx, facts):
    if not isinstance(facts, dict):
        ctx.oblige("facts extracted from circuit/*.go", False, str(facts))
        return
    facts = norm(facts)
    # --- semantic facts (obligations)
    eff = facts.get("effects", {})
    for fn, want in EXPECT_EFFECTS.items():
        ctx.fact("effects of %s on state it does not own (interprocedural; writes / external calls / escapes)" % fn,
                 eff.get(fn), want)
    pp = facts.get("put_paths", {})
    ctx.coverage["garble_put_paths"] = pp
    decided = not pp.get("undecided") and not pp.get("missing")
    if decided:
        ctx.fact("Garble: one pool.Get; every error return has executed exactly one Put (deferred Puts counted), "
                 "the success return none",
                 {"gets": pp.get("get_sites_in_closure_of_Garble"), "error": pp.get("error_return_put_counts"),
                  "success": pp.get("success_return_put_counts")},
                 {"gets": 1, "error": [1], "success": [0]})
    else:
        # the path analysis cannot decide this shape of the code: not an alarm, widen the search
        ctx.advise("Garble: Put count per return path decidable by the path analysis", pp.get("undecided"), [])
    ctx.fact("operations applied anywhere in package circuit to the pool field of Circuit (located by type); "
             "its declared type",
             (facts.get("garblePool_ops"), facts.get("garblePool_type")),
             (["CompareAndSwap", "Load"], "atomic.Pointer[sync.Pool]"))
    ctx.fact("pool New builds every scratch from allocations made inside New (nothing captured/shared)",
             facts.get("new_scratch"),
             ["<[][]ot.Label>=make@inside-New", "<[]ot.Label>=make@inside-New", "<[]ot.Wire>=make@inside-New"])
    # --- advisory (textual) facts
    ctx.advise("Garble: the handle literal binds Wires/Gates/scratch to the scratch it holds and pool to the pool "
               "(decided by the trace correspondence: scratch/pool identity read from every handle)",
               facts.get("handle_literal"), ADVISE_HANDLE)
    ctx.advise("Release: guard / Put / clear order (decided by the effect set of Release and the Release, "
               "second-Release and nil-Release operations of the stress oracle)",
               facts.get("release_shape"), ADVISE_RELEASE_SHAPE)
    ctx.advise("package circuit hands nothing to the collector's callbacks (runtime.SetFinalizer / AddCleanup / "
               "weak.Make): the model of GC histories has no collector transition (Model/PoolGC.lean, fin = false; "
               "what such a hook does to a retained garbling is decided by the GC-history oracle)",
               facts.get("collector_hooks"), [])


def distinct_traces(ctx, ops, gc=False):
    for line in open(ops, errors="replace"):
        toks = line.split()[2:]
        tids = {t.split(":")[1] for t in toks if ":" in t}
        # non-trivial: at least two goroutines and at least one garbling; a GC history: a dropped header, a
        # collection and a later Garble (one goroutine is enough: the history is the point)
        if gc:
            ks = [t[0] for t in toks]
            try:
                ok = "G" in ks[ks.index("K", ks.index("D")):]
            except ValueError:
                ok = False
        else:
            ok = len(tids) >= 2 and any(t.startswith("G:") for t in toks)
        if ok:
            ctx.distinct.add(hashlib.sha1(line.encode()).digest())


def stress(ctx, n, seed, binary=None, race=False, tag=""):
    env = None
    logbase = None
    if race:
        logbase = os.path.join(ctx.work, "race-report-%d%s" % (seed, tag))
        env = {"GORACE": GORACE + " log_path=" + logbase}
    ops, out, m = ctx.run_hx("stress", n, seed=seed, binary=binary, env=env,
                             tag=tag + ("-race" if race else ""), timeout=1500)
    label = "%s seed %d" % ("race-detector" if race else "plain", seed)
    rc = m.get("harness_rc", 0)
    if race:
        reports = ""
        for f in sorted(glob.glob(logbase + ".*")):
            reports += open(f, errors="replace").read()[:6000]
        raced = rc == 66 or "DATA RACE" in reports or "DATA RACE" in m.get("harness_log", "")
        ctx.oblige("stress run under the race detector (%s, %d rounds): no DATA RACE report" % (label, n),
                   not raced, reports[:3000] or m.get("harness_log", ""))
        if raced:
            prog = "?"
            try:
                prog = open(os.path.join(ctx.work, "stress%s-race-%d.meta.json.progress" % (tag, seed))).read()
            except Exception:
                pass
            ctx.fails.append({"sig": "c17-data-race", "seed": seed, "round": prog, "rounds": n,
                              "what": "the Go race detector reported a data race during concurrent "
                                      "Garble/Eval/Compute/Release on one shared circuit",
                              "report": vlib.clip(reports or m.get("harness_log", ""), 4000),
                              "replay": "GORACE='%s' <c17 built with -race> stress -seed %d -n %d  "
                                        "(schedule dependent; round in progress: %s)" % (GORACE, seed, n, prog)})
            m.pop("harness_rc", None)
    ob = m.get("observe")
    if ob is not None and not getattr(ctx, "_c17_observe_done", False):
        ctx._c17_observe_done = True
        ctx.coverage["pool_observability"] = ob
        ctx.oblige("harness can observe the pool: Circuit has exactly one field of type atomic.Pointer[sync.Pool] "
                   "(or *sync.Pool), Garbled exactly one *sync.Pool field and one unexported pointer to a circuit "
                   "struct (fields located by type; without them no pool-event trace and no pool-uniqueness oracle)",
                   bool(ob.get("ok")), str(ob))
    ctx.absorb_meta(m, prefix="race_" if race else "")
    if rc == 0:
        ctx.coverage["completed_" + ("race" if race else "plain") + "_runs"] = \
            ctx.coverage.get("completed_" + ("race" if race else "plain") + "_runs", 0) + 1
    if not m.get("harness_rc") and os.path.exists(ops) and os.path.getsize(ops) > 0 and rc == 0:
        ctx.correspond("pool-event traces of real runs are runs of the model (%s)" % label, ops, out)
        distinct_traces(ctx, ops)


def gchist(ctx, n, seed, wide=False, tag=""):
    """GC histories (harness/cmd/c17/gchist.go); plain build (the schedule is sequential but for joined helpers)."""
    ops, out, m = ctx.run_hx("gchist", n, seed=seed, tag=tag + ("-wide" if wide else ""), timeout=900,
                             extra_args=["-extra", "wide"] if wide else [])
    ctx.absorb_meta(m, prefix="gc_")
    if not m.get("harness_rc") and os.path.exists(ops) and os.path.getsize(ops) > 0:
        ctx.correspond("pool-event traces of GC histories (header drops, collections) are runs of the model "
                       "(%sseed %d)" % ("wide, " if wide else "", seed), ops, out)
        distinct_traces(ctx, ops, gc=True)


def rhist(ctx, n, seed, binary=None, race=False, tag=""):
    """Result histories (harness/cmd/c17/results.go): kept Compute / Eval results re-read after later calls."""
    env, logbase = None, None
    if race:
        logbase = os.path.join(ctx.work, "race-report-rhist-%d%s" % (seed, tag))
        env = {"GORACE": GORACE + " log_path=" + logbase}
    ops, out, m = ctx.run_hx("rhist", n, seed=seed, binary=binary, env=env,
                             tag=tag + ("-race" if race else ""), timeout=900)
    rc = m.get("harness_rc", 0)
    if race:
        reports = ""
        for f in sorted(glob.glob(logbase + ".*")):
            reports += open(f, errors="replace").read()[:6000]
        raced = rc == 66 or "DATA RACE" in reports or "DATA RACE" in m.get("harness_log", "")
        ctx.oblige("result histories under the race detector (seed %d, %d histories): no DATA RACE report" % (seed, n),
                   not raced, reports[:3000] or m.get("harness_log", ""))
        if raced:
            ctx.fails.append({"sig": "c17-data-race", "seed": seed, "histories": n,
                              "what": "the Go race detector reported a data race between a goroutine reading a result "
                                      "Compute returned to it and a later Compute call on the same circuit value",
                              "report": vlib.clip(reports or m.get("harness_log", ""), 4000),
                              "replay": "GORACE='%s' <c17 built with -race> rhist -seed %d -n %d" % (GORACE, seed, n)})
            m.pop("harness_rc", None)
    ctx.absorb_meta(m, prefix="race_" if race else "")
    if not m.get("harness_rc") and rc == 0 and os.path.exists(ops) and os.path.getsize(ops) > 0:
        ctx.correspond("result histories: every kept Compute result, at its return and at every later re-read, is the "
                       "value of the pure model (%sseed %d)" % ("race build, " if race else "", seed), ops, out)
        for line in open(ops, errors="replace"):
            toks = line.split()
            ws = [int(x) for x in toks[6].split(",")] if len(toks) > 6 else []
            ev = [t[0] for t in toks[7:]]
            # non-trivial: an output wider than a machine word, a result re-read after a later call
            if any(w > 64 for w in ws) and "V" in ev and "C" in ev[ev.index("V"):] if "V" in ev else False:
                ctx.distinct.add(hashlib.sha1(line.encode()).digest())


def replay_request():
    """bin/check C17 --replay F: (mode, extra, seed, n, case) when F holds a failing case of the harness.  The harness
    derives every round / GC history from (seed, case index), so `-only <case>` re-runs exactly that case."""
    if "--replay" not in sys.argv:
        return None
    try:
        f = sys.argv[sys.argv.index("--replay") + 1]
        f = f if os.path.isabs(f) else os.path.join(vlib.VERIF, f)
        fl = json.load(open(f)).get("failure") or {}
        m = re.match(r"c17 (stress|gchist|rhist)( -extra wide)? -seed (\d+) -n (\d+) -only (\d+)$", fl.get("replay", ""))
        if not m:
            return None
        return m.group(1), bool(m.group(2)), int(m.group(3)), int(m.group(4)), int(m.group(5)), fl.get("history")
    except Exception:
        return None


def run(ctx):
    ctx.prove("MpcVerif.Props.C17", THEOREMS)
    if ctx.tier == "thorough":
        ctx.leanchecker("MpcVerif.Props.C17")
    if ctx.build_drv():
        # hand-checked traces: the driver must reject each kind of ownership violation
        import shutil
        cdir = os.path.join(vlib.VERIF, "corpus", "C17")
        cops, cout = os.path.join(ctx.work, "corpus.ops"), os.path.join(ctx.work, "corpus.out")
        shutil.copy(os.path.join(cdir, "traces.ops"), cops)
        shutil.copy(os.path.join(cdir, "traces.out"), cout)
        ctx.correspond("corpus of hand-checked legal and illegal traces (model verdicts as expected)", cops, cout)
    quick = ctx.tier == "quick"
    seeds = [ctx.seed] if quick else [ctx.seed, ctx.seed + 1000, ctx.seed + 2000, ctx.seed + 3000]
    if ctx.build_hx():
        # ---- --replay of one recorded round / GC history: exactly that case; a reproduced failure decides the run
        rq = replay_request()
        if rq:
            mode, wide, seed, n, case, hist = rq
            for attempt in range(3):   # the case is fixed; the goroutine / collector schedule is the machine's
                ops, out, m = ctx.run_hx(mode, n, seed=seed, tag="-replay%d" % attempt, timeout=600,
                                         extra_args=["-only", str(case)] + (["-extra", "wide"] if wide else []))
                ctx.absorb_meta(m, prefix="replay_")
                if os.path.exists(ops) and os.path.getsize(ops) > 0:
                    ctx.correspond("replayed %s case %d of seed %d (attempt %d)" % (mode, case, seed, attempt), ops, out)
                if ctx.fails:
                    break
            print("replayed %s case %d of seed %d (n=%d): %d oracle failure(s)" % (mode, case, seed, n, len(ctx.fails)))
            if hist:
                print("  history: " + vlib.clip(hist, 700))
            for f in ctx.fails[:3]:
                print("  " + json.dumps({k: v for k, v in f.items() if k not in ("history", "stack")})[:600])
            if ctx.fails:
                ctx.coverage["rule"] = "replay of one recorded %s case (the full check was not run)" % mode
                return ctx.finish("Replay: %s case %d of seed %d was re-generated from its seed and re-run on the real "
                                  "code; the oracle fails again." % (mode, case, seed))
            print("the replayed case no longer fails; running the full check")
        _, _, m = ctx.run_hx("facts", 0, extra_args=["-extra", vlib.REPO])
        if m.get("facts_error") or m.get("harness_rc"):
            ctx.oblige("facts extracted from circuit/*.go", False,
                       m.get("facts_error") or m.get("harness_log", ""))
        else:
            check_facts(ctx, m.get("facts"))
        # informational: the stated usage-contract limit (C17_contract_needed_value_copy) replayed on the
        # real code; documents the limit, is neither an obligation nor a violation
        _, _, m = ctx.run_hx("contract", 20, tag="-contract")
        ctx.coverage["usage_contract_limit_replayed_on_real_code"] = m.get("contract", {"error": m.get("harness_log", "")[-300:]})
        # result histories first (cheapest; a kept result that changes is a concrete, replayable history)
        for s in seeds:
            rhist(ctx, 80 if quick else 600, s)
        # GC histories: cheap, sequential, replayable
        for s in seeds:
            gchist(ctx, 120 if quick else 600, s)
        if ctx.widen:
            # a structural fact of the pool protocol broke or an advisory drifted (e.g. Garble's / Release's effect
            # set gained an escape into the collector's callbacks, a new Put path): longer GC histories, more seeds
            for s in range(ctx.seed + 5000, ctx.seed + 5003):
                gchist(ctx, 200, s, wide=True)
                if ctx.fails:
                    break
        for s in seeds:
            stress(ctx, 3000 if quick else 15000, s)
    race = ctx.build_hx(race=True)
    if race:
        for s in seeds:
            rhist(ctx, 40 if quick else 300, s, binary=race, race=True)
        for s in seeds:
            stress(ctx, 1200 if quick else 5000, s, binary=race, race=True)
    if ctx.widen and ctx.hx and race:
        # widened search for a concrete failing schedule
        for s in range(ctx.seed + 7000, ctx.seed + 7003):
            stress(ctx, 2000, s, binary=race, race=True, tag="-widen")
            if ctx.fails:
                break
            stress(ctx, 4000, s, tag="-widen")
            if ctx.fails:
                break
    c = ctx.coverage.get("counters", {})
    # generator quality (only meaningful for runs that were not cut short by a race report)
    want = []
    if ctx.coverage.get("completed_plain_runs"):
        want += [("rounds_first_use_raced", 3), ("rounds_with_reuse", 10),
                 ("rounds_with_overlapping_handles", 10), ("ev_A", 10), ("ev_Q", 10), ("ev_D", 50), ("ev_K", 50)]
    if c.get("gc_rounds"):
        want += [("gc_reads_of_data_only_garbling_after_collection_and_later_garble", 100),
                 ("gc_retained_header_kept", 30), ("gc_kind_gc-procs1", 20), ("gc_kind_gc-procs0", 10),
                 ("gc_ev_K", 100), ("gc_scratch_reuses", 100)]
    if c.get("res_cases"):
        want += [("res_cases_with_wide_output", 40), ("res_rereads_of_kept_results", 1000),
                 ("res_parallel_bursts", 40), ("res_kind_res-procs1", 20), ("res_evals_kept", 20)]
    if ctx.coverage.get("completed_race_runs"):
        want += [("race_rounds_first_use_raced", 3), ("race_rounds_with_reuse", 10),
                 ("race_rounds_with_overlapping_handles", 10), ("race_ev_D", 20), ("race_ev_K", 20)]
    for key, least in want:
        ctx.oblige("generator reached %s >= %d" % (key, least), c.get(key, 0) >= least,
                   "got %s" % c.get(key, 0))
    ctx.coverage["rule"] = (
        "rounds of 1..25 goroutines on one shared random circuit (<=400 gates quick, <=800 thorough; kinds: "
        "first-use race on a fresh circuit with a spin barrier, mixed random op scripts, one long-lived handle "
        "re-read while others garble, sequential reuse, invalid-gate error path, mixed scripts with header drops "
        "(the goroutine keeps only R/Wires/Gates of a live garbling) and forced collections); ops: Garble (2..6 tapes/keys "
        "per round), re-read of a live handle, Eval on the live handle's tables, Eval on copies after Release, "
        "Compute, Release, second Release, three early-return paths, nil/zero-value Release, hand-off of a "
        "handle between goroutines; seeded Gosched/sleep yields.  distinct = distinct event traces with >= 2 "
        "goroutines and >= 1 Garble.  Each run once without and once with the race detector.  GC histories (mode "
        "gchist, plain build): one circuit (<= 1500 gates), 3..6 phases (8..15 widened) of [1..2 Garble whose caller "
        "keeps only R/Wires/Gates and drops the *Garbled (60 %) or keeps the header (control); 1..2 runtime.GC() + "
        "Gosched / 1-3 ms sleeps for the finalizer goroutine (75 %); 1..4 Garble+verify+Release(+second Release) of "
        "other sessions inline or by 1..3 joined goroutines; re-reads (digest vs the snapshot at Garble's return = "
        "single-goroutine reference) and evaluations of retained garblings; Release / second Release of header-kept "
        "ones; error path], closing with a collection, more garblings and a re-read + evaluation of everything "
        "retained; under GOMAXPROCS 1 (half), 2 and default; a scratch is identified by the address of the wire "
        "buffer.  distinct GC history = trace with a header drop, a later collection and a later Garble.")
    ctx.coverage["rule"] += (
        "  Half of the stress rounds re-cut the last wires of the circuit into 1..3 outputs over up to 300 wires; "
        "Compute is called on 4 inputs per round and every goroutine keeps its last 4 returned results and re-reads "
        "them after each later call.  Result histories (mode rhist, plain and race build): one circuit with 1..4 "
        "outputs of 1..1000 bits (widths on both sides of the multiples of 32/64; every 8th case all narrow), "
        "history of C (Compute on a fresh input, result kept as returned) / V (re-read of a kept result: snapshot "
        "at return + reference evaluation) / P (1..4 goroutines x 1..4 concurrent calls, own re-reads, results "
        "handed to goroutine 0) / E (Garble+Eval, label vector kept) / K / F, under GOMAXPROCS 1, 2, default; "
        "distinct result history = an output wider than 64 bits and a re-read followed by a later call.")
    ctx.assumptions += [
        "usage contract of *Garbled as scoped by the doc comment of Release: one goroutine at a time inside a "
        "method of a given handle, no use after Release, no by-value copy; outside it the code double-Puts "
        "(exhibited by C17_contract_needed_concurrent_release / _value_copy)",
        "atomic.Pointer (Load/CompareAndSwap) and sync.Pool (Get/Put) are linearizable objects and a Put "
        "happens-before the Get that returns the item (Go memory model / sync.Pool documentation)",
        "Go-memory-model data races are not modelled; they are sampled by the race detector on the schedules "
        "the stress harness produces",
        "the collector reclaims only unreachable objects and runs only callbacks the program registered "
        "(Model/PoolGC.lean: the only collector transition is a registered finalizer; sync.Pool dropping cached "
        "items at a collection is covered by Get's free choice of a new scratch)",
        "the circuit's gate list is not mutated while it is shared (AssignLevels and the compiler are not part "
        "of the property's operations)",
        "stale scratch contents do not influence a result: for well-formed circuits every wire that is read "
        "is written first (C01); C17_garble_result_history_free takes this as its hypothesis",
    ]
    ctx.trusted = vlib.DEFAULT_TRUSTED + [
        "go/parser + go/ast interprocedural effect / Put-path extractor in harness/cmd/c17/{effects,facts}.go (syntactic, best-effort types)",
        "the Go race detector (ThreadSanitizer runtime) and reflect-based reading of the unexported "
        "scratch/pool pointers",
    ]
    return ctx.finish(
        "Theorems (Props/C17.lean, induction over the step relation = all interleavings, any number of "
        "goroutines/calls/handles, every choice of sync.Pool.Get, every early return): pool_unique, "
        "scratch_owned_once, garble_isolated (+ history-free corollary), release_idempotent; the usage-contract "
        "limit is exhibited by two negation witnesses on the contract-free model.  GC histories (Model/PoolGC.lean: "
        "header drops + a collector that may run any registered finalizer): gc_put_only_by_release_or_error_path "
        "(the code registers none: no collector transition, only Release and Garble's error path Put), "
        "retained_garbling_valid (the data of a garbling whose header was dropped is the single-goroutine result "
        "and stays so along every further history, its scratch stranded), autorelease_breaks_retained_validity "
        "(negation witness: with a finalizer = Release the retained data shows another call's result).  Tie: go/ast facts about "
        "Garble/Release/garbleScratchPool/Eval/Compute; event traces of real concurrent runs (scratch and pool "
        "object identity of every handle, content digests, releases) accepted by the Lean model step function.  "
        "Oracle: every concurrent Garble/Eval/Compute result equals the single-goroutine result for the same "
        "tape and key, live handles never change, one pool object per circuit, no race-detector report; in GC "
        "histories the retained data of every unreleased garbling (header kept or dropped) is unchanged and "
        "evaluates correctly after collections and further Garble calls.")

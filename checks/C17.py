"""C17 A circuit value is safe to share between goroutines.

proof (partial): the ownership protocol of the per-circuit scratch pool is
proved in Lean over all interleavings (Props/C17.lean); the tie to /repo is
(1) structural facts extracted with go/ast from circuit/{garble,circuit,eval,
computer}.go, (2) the logged pool events of real concurrent runs replayed on
the model, (3) the implementation-side oracle: a stress program, built with
and without the Go race detector, that compares every concurrent result with
the single-goroutine result for the same tape.  Go-memory-model data races are
observable only at run time.
"""
import glob
import hashlib
import os

import vlib

LEVEL = "proof"

THEOREMS = [
    "Mpc.Pool.inv_reachable",
    "Mpc.Pool.C17_pool_unique",
    "Mpc.Pool.C17_scratch_owned_once",
    "Mpc.Pool.C17_garble_isolated",
    "Mpc.Pool.C17_garble_result_history_free",
    "Mpc.Pool.C17_release_idempotent",
    "Mpc.Pool.seqGarble_eq_garble",
    "Mpc.Pool.C17_garble_equals_C01",
    "Mpc.Pool.C17_concurrent_garbling_evaluates_correctly",
    "Mpc.Pool.C17_contract_needed_concurrent_release",
    "Mpc.Pool.C17_contract_needed_value_copy",
]

GORACE = "halt_on_error=1 exitcode=66"

# ---------------------------------------------------------------- expected facts
# What Model/Pool.lean assumes about the shape of the Go code.

EXPECT_RELEASE = [
    "if g == nil || g.pool == nil { return }",
    "g.pool.Put(g.scratch)",
    "g.scratch = nil",
    "g.pool = nil",
    "g.Wires = nil",
    "g.Gates = nil",
]

EXPECT_ACCESS = {
    # Garble writes only through the three buffers of the scratch it got from
    # the pool; the gate list is only read (gate.garbleInto has a pointer
    # receiver into c.Gates: its own access list below shows no write to it)
    "Circuit.Garble": {
        "access": ["W-scratch.gates", "W-scratch.slab", "W-scratch.wires",
                   "addr-of-receiver:&c.Gates[i]", "alias:gate=&c.Gates[i]",
                   "call-on-receiver:c.Inputs.Size", "call-on-receiver:c.garbleScratchPool",
                   "call-on-shared-alias:gate.garbleInto"],
        "callees": ["Size", "garbleInto", "garbleScratchPool", "makeLabels"]},
    "Gate.garbleInto": {
        "access": ["W-param:idp", "W-param:table", "W-param:wires", "arg-shared:fmt.Errorf(g.Op)"],
        "callees": ["encrypt", "encryptHalf", "idx", "idxUnary"]},
    "Circuit.garbleScratchPool": {
        "access": ["arg-shared:make(c.NumGates)", "arg-shared:make(c.NumWires)",
                   "call-on-receiver:c.garblePool.CompareAndSwap", "call-on-receiver:c.garblePool.Load"],
        "callees": ["CompareAndSwap", "Load"]},
    "Garbled.Release": {
        "access": ["W-receiver:g.Gates", "W-receiver:g.Wires", "W-receiver:g.pool", "W-receiver:g.scratch",
                   "arg-shared:g.pool.Put(g.scratch)", "call-on-receiver:g.pool.Put"],
        "callees": ["Put"]},
    # Eval writes only its `wires` argument; Compute only locals
    "Circuit.Eval": {
        "access": ["W-param:wires", "addr-of-receiver:&c.Gates[i]", "alias:gate=&c.Gates[i]",
                   "arg-shared:fmt.Errorf(gate.Op)"],
        "callees": ["decrypt", "encryptHalf", "idx", "idxUnary"]},
    "Circuit.Compute": {
        "access": ["arg-shared:make(c.NumWires)", "call-on-receiver:c.Outputs.Size"],
        "callees": ["Size"]},
    "encrypt": {"access": [], "callees": ["makeK"]},
    "decrypt": {"access": [], "callees": ["makeK"]},
    "encryptHalf": {"access": [], "callees": []},
    "makeK": {"access": [], "callees": []},
    "makeKHalf": {"access": [], "callees": []},
    "makeLabels": {"access": [], "callees": []},
    "idx": {"access": [], "callees": []},
    "idxUnary": {"access": [], "callees": []},
}


def norm(x):
    if isinstance(x, dict):
        return {k: norm(v) for k, v in x.items()}
    return x if x is not None else []


def check_facts(ctx, facts):
    if not isinstance(facts, dict):
        ctx.oblige("facts extracted from circuit/*.go", False, str(facts))
        return
    g = norm(facts.get("Garble", {}))
    ctx.fact("Garble: starts with pool := c.garbleScratchPool(); scratch := pool.Get().(*garbledScratch)",
             g.get("first_statements"),
             ["pool := c.garbleScratchPool()", "scratch := pool.Get().(*garbledScratch)"])
    ctx.fact("Garble: exactly one pool.Get", g.get("get_calls"), 1)
    ctx.fact("Garble: every early (error) return is directly preceded by pool.Put(scratch), and there is no other Put",
             (g.get("error_returns", 0) >= 1, g.get("error_returns") == g.get("error_returns_preceded_by_put"),
              g.get("put_calls") == g.get("error_returns")), (True, True, True))
    ctx.fact("Garble: one success return publishing the scratch and the pool in the handle",
             (g.get("success_returns"), g.get("success_return")),
             (1, "return &Garbled{ R: r, Wires: wires, Gates: gates, scratch: scratch, pool: pool, }, nil"))
    ctx.fact("Garble: wires/slab/gates are the buffers of the scratch it holds", g.get("scratch_aliases"),
             ["gates := scratch.gates", "slab := scratch.slab", "wires := scratch.wires"])
    ctx.coverage["garble_error_returns"] = g.get("error_returns")
    r = norm(facts.get("Release", {}))
    ctx.fact("Release: nil/pool==nil guard, then Put, then the handle fields are cleared",
             (r.get("receiver"), r.get("statements")), ("*Garbled", EXPECT_RELEASE))
    p = norm(facts.get("garbleScratchPool", {}))
    ctx.fact("garbleScratchPool: Load, CompareAndSwap(nil, p), Load on an atomic.Pointer[sync.Pool]; no other writer",
             (p.get("field_type"), p.get("atomic_ops"), p.get("returns"), p.get("other_uses_of_garblePool")),
             ("atomic.Pointer[sync.Pool]", ["Load()", "CompareAndSwap(nil, p)", "Load()"],
              ["return p", "return p", "return c.garblePool.Load()"], []))
    ctx.fact("pool New allocates fresh wires/slab/gates for every scratch", p.get("new_scratch_fields"),
             ["gates=make", "slab=make", "wires=make"])
    ctx.fact("Garbled / garbledScratch fields",
             (norm(facts.get("Garbled_fields")), norm(facts.get("garbledScratch_fields"))),
             (["R ot.Label", "Wires []ot.Wire", "Gates [][]ot.Label", "scratch *garbledScratch", "pool *sync.Pool"],
              ["wires []ot.Wire", "slab []ot.Label", "gates [][]ot.Label"]))
    acc = norm(facts.get("access", {}))
    for fn, want in EXPECT_ACCESS.items():
        got = acc.get(fn, {})
        ctx.fact("shared-state access of %s (writes, address-taking, calls through the receiver)" % fn,
                 {"access": got.get("access"), "callees": got.get("callees")}, want)


def distinct_traces(ctx, ops):
    for line in open(ops, errors="replace"):
        toks = line.split()[2:]
        tids = {t.split(":")[1] for t in toks if ":" in t}
        # non-trivial: at least two goroutines and at least one garbling
        if len(tids) >= 2 and any(t.startswith("G:") for t in toks):
            ctx.distinct.add(hashlib.sha1(line.encode()).digest())


def stress(ctx, n, seed, binary=None, race=False, tag=""):
    env = None
    logbase = None
    if race:
        logbase = os.path.join(ctx.work, "race-report-%d%s" % (seed, tag))
        env = {"GORACE": GORACE + " log_path=" + logbase}
    ops, out, m = ctx.run_hx("stress", n, seed=seed, binary=binary, env=env,
                             tag=tag + ("-race" if race else ""), timeout=1500)
    label = "%s seed %d" % ("race-detector" if race else "plain", seed)
    rc = m.get("harness_rc", 0)
    if race:
        reports = ""
        for f in sorted(glob.glob(logbase + ".*")):
            reports += open(f, errors="replace").read()[:6000]
        raced = rc == 66 or "DATA RACE" in reports or "DATA RACE" in m.get("harness_log", "")
        ctx.oblige("stress run under the race detector (%s, %d rounds): no DATA RACE report" % (label, n),
                   not raced, reports[:3000] or m.get("harness_log", ""))
        if raced:
            prog = "?"
            try:
                prog = open(os.path.join(ctx.work, "stress%s-race-%d.meta.json.progress" % (tag, seed))).read()
            except Exception:
                pass
            ctx.fails.append({"sig": "c17-data-race", "seed": seed, "round": prog, "rounds": n,
                              "what": "the Go race detector reported a data race during concurrent "
                                      "Garble/Eval/Compute/Release on one shared circuit",
                              "report": vlib.clip(reports or m.get("harness_log", ""), 4000),
                              "replay": "GORACE='%s' <c17 built with -race> stress -seed %d -n %d  "
                                        "(schedule dependent; round in progress: %s)" % (GORACE, seed, n, prog)})
            m.pop("harness_rc", None)
    ctx.absorb_meta(m, prefix="race_" if race else "")
    if rc == 0:
        ctx.coverage["completed_" + ("race" if race else "plain") + "_runs"] = \
            ctx.coverage.get("completed_" + ("race" if race else "plain") + "_runs", 0) + 1
    if not m.get("harness_rc") and os.path.exists(ops) and os.path.getsize(ops) > 0 and rc == 0:
        ctx.correspond("pool-event traces of real runs are runs of the model (%s)" % label, ops, out)
        distinct_traces(ctx, ops)


def run(ctx):
    ctx.prove("MpcVerif.Props.C17", THEOREMS)
    if ctx.tier == "thorough":
        ctx.leanchecker("MpcVerif.Props.C17")
    if ctx.build_drv():
        # hand-checked traces: the driver must reject each kind of ownership violation
        import shutil
        cdir = os.path.join(vlib.VERIF, "corpus", "C17")
        cops, cout = os.path.join(ctx.work, "corpus.ops"), os.path.join(ctx.work, "corpus.out")
        shutil.copy(os.path.join(cdir, "traces.ops"), cops)
        shutil.copy(os.path.join(cdir, "traces.out"), cout)
        ctx.correspond("corpus of hand-checked legal and illegal traces (model verdicts as expected)", cops, cout)
    quick = ctx.tier == "quick"
    seeds = [ctx.seed] if quick else [ctx.seed, ctx.seed + 1000, ctx.seed + 2000, ctx.seed + 3000]
    if ctx.build_hx():
        _, _, m = ctx.run_hx("facts", 0, extra_args=["-extra", vlib.REPO])
        if m.get("facts_error") or m.get("harness_rc"):
            ctx.oblige("facts extracted from circuit/*.go", False,
                       m.get("facts_error") or m.get("harness_log", ""))
        else:
            check_facts(ctx, m.get("facts"))
        # informational: the stated usage-contract limit (C17_contract_needed_value_copy) replayed on the
        # real code; documents the limit, is neither an obligation nor a violation
        _, _, m = ctx.run_hx("contract", 20, tag="-contract")
        ctx.coverage["usage_contract_limit_replayed_on_real_code"] = m.get("contract", {"error": m.get("harness_log", "")[-300:]})
        for s in seeds:
            stress(ctx, 3000 if quick else 15000, s)
    race = ctx.build_hx(race=True)
    if race:
        for s in seeds:
            stress(ctx, 1200 if quick else 5000, s, binary=race, race=True)
    if ctx.broken and not ctx.fails and ctx.hx and race:
        # widened search for a concrete failing schedule
        for s in range(ctx.seed + 7000, ctx.seed + 7003):
            stress(ctx, 2000, s, binary=race, race=True, tag="-widen")
            if ctx.fails:
                break
            stress(ctx, 4000, s, tag="-widen")
            if ctx.fails:
                break
    c = ctx.coverage.get("counters", {})
    # generator quality (only meaningful for runs that were not cut short by a race report)
    want = []
    if ctx.coverage.get("completed_plain_runs"):
        want += [("rounds_first_use_raced", 3), ("rounds_with_reuse", 10),
                 ("rounds_with_overlapping_handles", 10), ("ev_A", 10), ("ev_Q", 10)]
    if ctx.coverage.get("completed_race_runs"):
        want += [("race_rounds_first_use_raced", 3), ("race_rounds_with_reuse", 10),
                 ("race_rounds_with_overlapping_handles", 10)]
    for key, least in want:
        ctx.oblige("generator reached %s >= %d" % (key, least), c.get(key, 0) >= least,
                   "got %s" % c.get(key, 0))
    ctx.coverage["rule"] = (
        "rounds of 1..25 goroutines on one shared random circuit (<=400 gates quick, <=800 thorough; kinds: "
        "first-use race on a fresh circuit with a spin barrier, mixed random op scripts, one long-lived handle "
        "re-read while others garble, sequential reuse, invalid-gate error path); ops: Garble (2..6 tapes/keys "
        "per round), re-read of a live handle, Eval on the live handle's tables, Eval on copies after Release, "
        "Compute, Release, second Release, three early-return paths, nil/zero-value Release, hand-off of a "
        "handle between goroutines; seeded Gosched/sleep yields.  distinct = distinct event traces with >= 2 "
        "goroutines and >= 1 Garble.  Each run once without and once with the race detector.")
    ctx.assumptions += [
        "usage contract of *Garbled as scoped by the doc comment of Release: one goroutine at a time inside a "
        "method of a given handle, no use after Release, no by-value copy; outside it the code double-Puts "
        "(exhibited by C17_contract_needed_concurrent_release / _value_copy)",
        "atomic.Pointer (Load/CompareAndSwap) and sync.Pool (Get/Put) are linearizable objects and a Put "
        "happens-before the Get that returns the item (Go memory model / sync.Pool documentation)",
        "Go-memory-model data races are not modelled; they are sampled by the race detector on the schedules "
        "the stress harness produces",
        "the circuit's gate list is not mutated while it is shared (AssignLevels and the compiler are not part "
        "of the property's operations)",
        "stale scratch contents do not influence a result: for well-formed circuits every wire that is read "
        "is written first (C01); C17_garble_result_history_free takes this as its hypothesis",
    ]
    ctx.trusted = vlib.DEFAULT_TRUSTED + [
        "go/parser + go/ast fact extractor in harness/cmd/c17/facts.go",
        "the Go race detector (ThreadSanitizer runtime) and reflect-based reading of the unexported "
        "scratch/pool pointers",
    ]
    return ctx.finish(
        "Theorems (Props/C17.lean, induction over the step relation = all interleavings, any number of "
        "goroutines/calls/handles, every choice of sync.Pool.Get, every early return): pool_unique, "
        "scratch_owned_once, garble_isolated (+ history-free corollary), release_idempotent; the usage-contract "
        "limit is exhibited by two negation witnesses on the contract-free model.  Tie: go/ast facts about "
        "Garble/Release/garbleScratchPool/Eval/Compute; event traces of real concurrent runs (scratch and pool "
        "object identity of every handle, content digests, releases) accepted by the Lean model step function.  "
        "Oracle: every concurrent Garble/Eval/Compute result equals the single-goroutine result for the same "
        "tape and key, live handles never change, one pool object per circuit, no race-detector report.")

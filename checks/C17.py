"""C17 A circuit value is safe to share between goroutines.

proof (partial): the ownership protocol of the per-circuit scratch pool is
proved in Lean over all interleavings (Props/C17.lean); the tie to /repo is
(1) structural facts extracted with go/ast from circuit/{garble,circuit,eval,
computer}.go, (2) the logged pool events of real concurrent runs replayed on
the model, (3) the implementation-side oracle: a stress program, built with
and without the Go race detector, that compares every concurrent result with
the single-goroutine result for the same tape.  Go-memory-model data races are
observable only at run time.
"""
import glob
import hashlib
import os

import vlib

LEVEL = "proof"

THEOREMS = [
    "Mpc.Pool.inv_reachable",
    "Mpc.Pool.C17_pool_unique",
    "Mpc.Pool.C17_scratch_owned_once",
    "Mpc.Pool.C17_garble_isolated",
    "Mpc.Pool.C17_garble_result_history_free",
    "Mpc.Pool.C17_release_idempotent",
    "Mpc.Pool.seqGarble_eq_garble",
    "Mpc.Pool.C17_garble_equals_C01",
    "Mpc.Pool.C17_concurrent_garbling_evaluates_correctly",
    "Mpc.Pool.C17_contract_needed_concurrent_release",
    "Mpc.Pool.C17_contract_needed_value_copy",
]

GORACE = "halt_on_error=1 exitcode=66"

# ---------------------------------------------------------------- expected facts
# What Model/Pool.lean assumes about the Go code, as SEMANTIC abstractions of
# the source (harness/cmd/c17/effects.go): for each entry point the set of
# effects on state the call does not own -- writes through, external method
# calls on and escapes of references rooted at the receiver (named by declared
# type), a package variable, a reference-typed parameter (position + type), the
# pool object (POOL = what Circuit.garblePool points to) or a scratch it handed
# out (SCRATCH = POOL.Get()).  Same-package callees are followed with the
# origins of their arguments; local aliases, renamings, helper extraction /
# inlining, loop forms do not change the sets; reads are not effects.

EXPECT_EFFECTS = {
    # Abstract locations are named by type / role, never by the name of an unexported identifier:
    # recv:Circuit.<atomic.Pointer[sync.Pool]> = the field of Circuit of that type, POOL = what it points to,
    # SCRATCH = POOL.Get(), SCRATCH.<[]ot.Wire> = the scratch's field of that type, *scratch-struct = the struct
    # the handle's unexported pointer field points to; exported fields keep their names.
    # Garble: creates/looks up the pool with Load + CompareAndSwap of a locally built object, takes one
    # scratch, writes only the three buffers of that scratch, may Put it back; nothing of the circuit itself
    "Circuit.Garble": [
        "extcall POOL.Get",
        "extcall POOL.Put(SCRATCH)",
        "extcall recv:Circuit.<atomic.Pointer[sync.Pool]>.CompareAndSwap(fresh)",
        "extcall recv:Circuit.<atomic.Pointer[sync.Pool]>.Load",
        "write SCRATCH.<[][]ot.Label>[*]",
        "write SCRATCH.<[]ot.Label>[*]",
        "write SCRATCH.<[]ot.Wire>[*]",
    ],
    # Eval writes only its wire-label argument; Compute nothing it does not own
    "Circuit.Eval": ["write param#1([]ot.Label)[*]"],
    "Circuit.Compute": [],
    # Release: one Put of its own scratch into its own pool, clears the four fields of the handle
    "Garbled.Release": [
        "extcall recv:Garbled.<*sync.Pool>.Put(recv:Garbled.<*scratch-struct>)",
        "write recv:Garbled.<*scratch-struct>",
        "write recv:Garbled.<*sync.Pool>",
        "write recv:Garbled.Gates",
        "write recv:Garbled.Wires",
    ],
}

# renderings of statement order: ADVISORY only (their semantic content is decided by the effect sets above,
# the trace correspondence and the stress oracle)
ADVISE_RELEASE_SHAPE = {
    "cleared_after_put": ["Garbled.<*scratch-struct>", "Garbled.<*sync.Pool>", "Garbled.Gates", "Garbled.Wires"],
    "guard_returns_when": ["Garbled == nil", "Garbled.<*sync.Pool> == nil"],
    "put": "Garbled.<*sync.Pool>.Put(Garbled.<*scratch-struct>)", "put_before_clears": True, "puts": 1}
ADVISE_HANDLE = ["<*scratch-struct>=SCRATCH", "<*sync.Pool>=POOL", "Gates=SCRATCH.<[][]ot.Label>", "R=own",
                 "Wires=SCRATCH.<[]ot.Wire>"]


def norm(x):
    if isinstance(x, dict):
        return {k: norm(v) for k, v in x.items()}
    return x if x is not None else []


def check_facts(ctx, facts):
    if not isinstance(facts, dict):
        ctx.oblige("facts extracted from circuit/*.go", False, str(facts))
        return
    facts = norm(facts)
    # --- semantic facts (obligations)
    eff = facts.get("effects", {})
    for fn, want in EXPECT_EFFECTS.items():
        ctx.fact("effects of %s on state it does not own (interprocedural; writes / external calls / escapes)" % fn,
                 eff.get(fn), want)
    pp = facts.get("put_paths", {})
    ctx.coverage["garble_put_paths"] = pp
    decided = not pp.get("undecided") and not pp.get("missing")
    if decided:
        ctx.fact("Garble: one pool.Get; every error return has executed exactly one Put (deferred Puts counted), "
                 "the success return none",
                 {"gets": pp.get("get_sites_in_closure_of_Garble"), "error": pp.get("error_return_put_counts"),
                  "success": pp.get("success_return_put_counts")},
                 {"gets": 1, "error": [1], "success": [0]})
    else:
        # the path analysis cannot decide this shape of the code: not an alarm, widen the search
        ctx.advise("Garble: Put count per return path decidable by the path analysis", pp.get("undecided"), [])
    ctx.fact("operations applied anywhere in package circuit to the pool field of Circuit (located by type); "
             "its declared type",
             (facts.get("garblePool_ops"), facts.get("garblePool_type")),
             (["CompareAndSwap", "Load"], "atomic.Pointer[sync.Pool]"))
    ctx.fact("pool New builds every scratch from allocations made inside New (nothing captured/shared)",
             facts.get("new_scratch"),
             ["<[][]ot.Label>=make@inside-New", "<[]ot.Label>=make@inside-New", "<[]ot.Wire>=make@inside-New"])
    # --- advisory (textual) facts
    ctx.advise("Garble: the handle literal binds Wires/Gates/scratch to the scratch it holds and pool to the pool "
               "(decided by the trace correspondence: scratch/pool identity read from every handle)",
               facts.get("handle_literal"), ADVISE_HANDLE)
    ctx.advise("Release: guard / Put / clear order (decided by the effect set of Release and the Release, "
               "second-Release and nil-Release operations of the stress oracle)",
               facts.get("release_shape"), ADVISE_RELEASE_SHAPE)


def distinct_traces(ctx, ops):
    for line in open(ops, errors="replace"):
        toks = line.split()[2:]
        tids = {t.split(":")[1] for t in toks if ":" in t}
        # non-trivial: at least two goroutines and at least one garbling
        if len(tids) >= 2 and any(t.startswith("G:") for t in toks):
            ctx.distinct.add(hashlib.sha1(line.encode()).digest())


def stress(ctx, n, seed, binary=None, race=False, tag=""):
    env = None
    logbase = None
    if race:
        logbase = os.path.join(ctx.work, "race-report-%d%s" % (seed, tag))
        env = {"GORACE": GORACE + " log_path=" + logbase}
    ops, out, m = ctx.run_hx("stress", n, seed=seed, binary=binary, env=env,
                             tag=tag + ("-race" if race else ""), timeout=1500)
    label = "%s seed %d" % ("race-detector" if race else "plain", seed)
    rc = m.get("harness_rc", 0)
    if race:
        reports = ""
        for f in sorted(glob.glob(logbase + ".*")):
            reports += open(f, errors="replace").read()[:6000]
        raced = rc == 66 or "DATA RACE" in reports or "DATA RACE" in m.get("harness_log", "")
        ctx.oblige("stress run under the race detector (%s, %d rounds): no DATA RACE report" % (label, n),
                   not raced, reports[:3000] or m.get("harness_log", ""))
        if raced:
            prog = "?"
            try:
                prog = open(os.path.join(ctx.work, "stress%s-race-%d.meta.json.progress" % (tag, seed))).read()
            except Exception:
                pass
            ctx.fails.append({"sig": "c17-data-race", "seed": seed, "round": prog, "rounds": n,
                              "what": "the Go race detector reported a data race during concurrent "
                                      "Garble/Eval/Compute/Release on one shared circuit",
                              "report": vlib.clip(reports or m.get("harness_log", ""), 4000),
                              "replay": "GORACE='%s' <c17 built with -race> stress -seed %d -n %d  "
                                        "(schedule dependent; round in progress: %s)" % (GORACE, seed, n, prog)})
            m.pop("harness_rc", None)
    ob = m.get("observe")
    if ob is not None and not getattr(ctx, "_c17_observe_done", False):
        ctx._c17_observe_done = True
        ctx.coverage["pool_observability"] = ob
        ctx.oblige("harness can observe the pool: Circuit has exactly one field of type atomic.Pointer[sync.Pool] "
                   "(or *sync.Pool), Garbled exactly one *sync.Pool field and one unexported pointer to a circuit "
                   "struct (fields located by type; without them no pool-event trace and no pool-uniqueness oracle)",
                   bool(ob.get("ok")), str(ob))
    ctx.absorb_meta(m, prefix="race_" if race else "")
    if rc == 0:
        ctx.coverage["completed_" + ("race" if race else "plain") + "_runs"] = \
            ctx.coverage.get("completed_" + ("race" if race else "plain") + "_runs", 0) + 1
    if not m.get("harness_rc") and os.path.exists(ops) and os.path.getsize(ops) > 0 and rc == 0:
        ctx.correspond("pool-event traces of real runs are runs of the model (%s)" % label, ops, out)
        distinct_traces(ctx, ops)


def run(ctx):
    ctx.prove("MpcVerif.Props.C17", THEOREMS)
    if ctx.tier == "thorough":
        ctx.leanchecker("MpcVerif.Props.C17")
    if ctx.build_drv():
        # hand-checked traces: the driver must reject each kind of ownership violation
        import shutil
        cdir = os.path.join(vlib.VERIF, "corpus", "C17")
        cops, cout = os.path.join(ctx.work, "corpus.ops"), os.path.join(ctx.work, "corpus.out")
        shutil.copy(os.path.join(cdir, "traces.ops"), cops)
        shutil.copy(os.path.join(cdir, "traces.out"), cout)
        ctx.correspond("corpus of hand-checked legal and illegal traces (model verdicts as expected)", cops, cout)
    quick = ctx.tier == "quick"
    seeds = [ctx.seed] if quick else [ctx.seed, ctx.seed + 1000, ctx.seed + 2000, ctx.seed + 3000]
    if ctx.build_hx():
        _, _, m = ctx.run_hx("facts", 0, extra_args=["-extra", vlib.REPO])
        if m.get("facts_error") or m.get("harness_rc"):
            ctx.oblige("facts extracted from circuit/*.go", False,
                       m.get("facts_error") or m.get("harness_log", ""))
        else:
            check_facts(ctx, m.get("facts"))
        # informational: the stated usage-contract limit (C17_contract_needed_value_copy) replayed on the
        # real code; documents the limit, is neither an obligation nor a violation
        _, _, m = ctx.run_hx("contract", 20, tag="-contract")
        ctx.coverage["usage_contract_limit_replayed_on_real_code"] = m.get("contract", {"error": m.get("harness_log", "")[-300:]})
        for s in seeds:
            stress(ctx, 3000 if quick else 15000, s)
    race = ctx.build_hx(race=True)
    if race:
        for s in seeds:
            stress(ctx, 1200 if quick else 5000, s, binary=race, race=True)
    if ctx.widen and ctx.hx and race:
        # widened search for a concrete failing schedule
        for s in range(ctx.seed + 7000, ctx.seed + 7003):
            stress(ctx, 2000, s, binary=race, race=True, tag="-widen")
            if ctx.fails:
                break
            stress(ctx, 4000, s, tag="-widen")
            if ctx.fails:
                break
    c = ctx.coverage.get("counters", {})
    # generator quality (only meaningful for runs that were not cut short by a race report)
    want = []
    if ctx.coverage.get("completed_plain_runs"):
        want += [("rounds_first_use_raced", 3), ("rounds_with_reuse", 10),
                 ("rounds_with_overlapping_handles", 10), ("ev_A", 10), ("ev_Q", 10)]
    if ctx.coverage.get("completed_race_runs"):
        want += [("race_rounds_first_use_raced", 3), ("race_rounds_with_reuse", 10),
                 ("race_rounds_with_overlapping_handles", 10)]
    for key, least in want:
        ctx.oblige("generator reached %s >= %d" % (key, least), c.get(key, 0) >= least,
                   "got %s" % c.get(key, 0))
    ctx.coverage["rule"] = (
        "rounds of 1..25 goroutines on one shared random circuit (<=400 gates quick, <=800 thorough; kinds: "
        "first-use race on a fresh circuit with a spin barrier, mixed random op scripts, one long-lived handle "
        "re-read while others garble, sequential reuse, invalid-gate error path); ops: Garble (2..6 tapes/keys "
        "per round), re-read of a live handle, Eval on the live handle's tables, Eval on copies after Release, "
        "Compute, Release, second Release, three early-return paths, nil/zero-value Release, hand-off of a "
        "handle between goroutines; seeded Gosched/sleep yields.  distinct = distinct event traces with >= 2 "
        "goroutines and >= 1 Garble.  Each run once without and once with the race detector.")
    ctx.assumptions += [
        "usage contract of *Garbled as scoped by the doc comment of Release: one goroutine at a time inside a "
        "method of a given handle, no use after Release, no by-value copy; outside it the code double-Puts "
        "(exhibited by C17_contract_needed_concurrent_release / _value_copy)",
        "atomic.Pointer (Load/CompareAndSwap) and sync.Pool (Get/Put) are linearizable objects and a Put "
        "happens-before the Get that returns the item (Go memory model / sync.Pool documentation)",
        "Go-memory-model data races are not modelled; they are sampled by the race detector on the schedules "
        "the stress harness produces",
        "the circuit's gate list is not mutated while it is shared (AssignLevels and the compiler are not part "
        "of the property's operations)",
        "stale scratch contents do not influence a result: for well-formed circuits every wire that is read "
        "is written first (C01); C17_garble_result_history_free takes this as its hypothesis",
    ]
    ctx.trusted = vlib.DEFAULT_TRUSTED + [
        "go/parser + go/ast interprocedural effect / Put-path extractor in harness/cmd/c17/{effects,facts}.go (syntactic, best-effort types)",
        "the Go race detector (ThreadSanitizer runtime) and reflect-based reading of the unexported "
        "scratch/pool pointers",
    ]
    return ctx.finish(
        "Theorems (Props/C17.lean, induction over the step relation = all interleavings, any number of "
        "goroutines/calls/handles, every choice of sync.Pool.Get, every early return): pool_unique, "
        "scratch_owned_once, garble_isolated (+ history-free corollary), release_idempotent; the usage-contract "
        "limit is exhibited by two negation witnesses on the contract-free model.  Tie: go/ast facts about "
        "Garble/Release/garbleScratchPool/Eval/Compute; event traces of real concurrent runs (scratch and pool "
        "object identity of every handle, content digests, releases) accepted by the Lean model step function.  "
        "Oracle: every concurrent Garble/Eval/Compute result equals the single-goroutine result for the same "
        "tape and key, live handles never change, one pool object per circuit, no race-detector report.")

"""C02 Two-party protocol: both parties obtain f(x, y)."""
import hashlib
import re

import vlib

LEVEL = "proof"

THEOREMS = [
    "Mpc.C02_both_get_f",
    "Mpc.C02_flight1_roundtrip",
    "Mpc.C02_result_bytes_roundtrip",
    "Mpc.idealOt_spec",
    "Mpc.splitNat_packLE",
    "Mpc.C01_decode",
]

# The message grammar the model assumes (Model/Proto2.lean), as the ordered
# list of connection / OT calls in the two functions.
# Extracted with `gofacts callseq` (harness/cmd/gofacts/callseq.go): source
# order, same-package helpers inlined transitively, receivers named by their
# declared type -- so renaming variables, extracting / inlining helpers or
# changing loop forms does not change it, while adding, dropping or reordering
# a message does.
C = "p2p.Conn."
EXPECT_GARBLER = [C + "SendData", C + "SendUint32", C + "SendUint32", C + "SendLabel", C + "SendLabel",
                  "ot.OT.InitSender", C + "ReceiveUint32", C + "ReceiveUint32", "ot.OT.Send", C + "ReceiveLabel",
                  C + "SendData", C + "Flush"]
EXPECT_EVALUATOR = [C + "ReceiveData", C + "ReceiveUint32", C + "ReceiveUint32", C + "ReceiveLabel",
                    C + "ReceiveLabel", "ot.OT.InitReceiver", C + "SendUint32", C + "SendUint32", C + "Flush",
                    "ot.OT.Receive", C + "SendLabel", C + "Flush", C + "ReceiveData"]
MSG_METHODS = ["SendData", "SendUint32", "SendLabel", "SendString", "SendByte", "SendUint16", "ReceiveData",
               "ReceiveUint32", "ReceiveLabel", "ReceiveString", "ReceiveByte", "ReceiveUint16", "Flush", "InitSender",
               "InitReceiver", "Send", "Receive"]


def run(ctx):
    ctx.prove("MpcVerif.Props.C02", THEOREMS)
    # composition with the connection-layer theorem of C11 (transport fragmentation, writer schedule)
    # and the whole session over two connections: every flight of every size (no hypothesis relates a message to the
    # 64 KiB write buffer / 1 MiB read window), every writer schedule, every read fragmentation of both directions
    ctx.prove("MpcVerif.Props.C02Conn", ["Mpc.C02_messages_over_conn", "Mpc.Msg.ofVal_toVal", "Mpc.C11_conn_roundtrip",
                                         "Mpc.C02_flight_over_conn", "Mpc.C02_both_get_f_over_conn",
                                         "Mpc.C02_result_independent_of_transport"])
    if ctx.tier == "thorough":
        ctx.leanchecker("MpcVerif.Props.C02")
    ctx.build_drv()
    ctx.fact("message sequence of circuit.Garbler (helpers inlined)", ctx.callseq("circuit", "Garbler", MSG_METHODS),
             EXPECT_GARBLER)
    ctx.fact("message sequence of circuit.Evaluator (helpers inlined)", ctx.callseq("circuit", "Evaluator", MSG_METHODS),
             EXPECT_EVALUATOR)
    ctx.fact("circuit.Garbler keeps its garbling alive (no Release, directly or in a helper) while it still uses the wire table",
             ctx.callseq("circuit", "Garbler", ["Release"]), [])
    quick = ctx.tier == "quick"
    if ctx.build_hx():
        plan = [("ideal", 150 if quick else 3000), ("real", 35 if quick else 400), ("compiled", 36 if quick else 450),
                ("shared", 6 if quick else 60), ("conn", 64 if quick else 420)]
        for mode, n in plan:
            ops, out, meta = ctx.run_hx(mode, n, timeout=1500)
            ctx.absorb_meta(meta, prefix=mode + "_")
            what = {"ideal": "both transcripts byte-exact + results", "real": "results with RSA/CO/COT/COT-malicious",
                    "compiled": "compiled MPCL programs incl. struct/array arguments, results",
                    "shared": "24 overlapping sessions per round on ONE shared circuit value, transcripts + results",
                    "conn": "byte volumes across the 64 KiB / 1 MiB Conn buffers x every OT over the fragmenting, delaying "
                            "transport; stream digests, transport read pattern and results vs the session-over-Conn model"
                    }[mode]
            ctx.correspond("%s sessions (%s)" % (mode, what), ops, out)
            for line in open(ops, errors="replace"):
                ctx.distinct.add(hashlib.sha1(line.encode()).digest())
        c = ctx.coverage.get("counters", {})
        ctx.oblige("generator reached evaluator inputs beyond one OT-extension chunk (> 512 bits, not byte aligned) with real OT",
                   c.get("real_evaluator_input_over_512_bits_not_byte_aligned", 0) > 0,
                   "counters: %s" % {k: v for k, v in c.items() if "512" in k})
        # the size / schedule classes the quantifier names must actually have been generated
        for otn in ("ideal", "co", "cot", "cotm", "rsa"):
            ctx.oblige("generator: a %s-OT session moved more than 1 MiB (the Conn read buffer) to the evaluator" % otn,
                       c.get("conn_ot_%s_to_evaluator_over_1MiB" % otn, 0) > 0, "counters: %s" % c)
        for otn in ("co", "cot", "cotm"):
            ctx.oblige("generator: a %s-OT session moved more than 64 KiB (the Conn write buffer) to the garbler" % otn,
                       c.get("conn_ot_%s_to_garbler_over_64KiB" % otn, 0) > 0, "counters: %s" % c)
        ctx.oblige("generator: transport reads that filled the 1 MiB read buffer and reads that ended 1..20 bytes before its end",
                   c.get("conn_sessions_with_a_read_filling_the_1MiB_buffer", 0) > 0 and
                   c.get("conn_reads_ending_1_to_20_bytes_before_end_of_1MiB_buffer", 0) > 0 and
                   c.get("conn_sched_single_byte_prefix", 0) > 0, "counters: %s" % c)
        if ctx.widen:
            for s in range(ctx.seed + 7000, ctx.seed + 7004):
                for mode, n in (("ideal", 1500), ("real", 120), ("conn", 64)):
                    ops, out, meta = ctx.run_hx(mode, n, seed=s, tag="-widen", timeout=1500)
                    ctx.absorb_meta(meta, prefix="widen_")
                if ctx.fails:
                    break
    ctx.coverage["rule"] = ("random well-formed 2-party circuits (argument widths 1..70, 1..4 outputs of random widths incl. "
                            "1-bit), random inputs, seeded read fragmentation on both directions; conn mode: classes small / "
                            "tables 70..400 KiB / tables 1.1..2.5 MiB / garbler argument > 4096 bits / evaluator argument > 4096 "
                            "bits, each with ideal, CO, COT, COT-malicious (RSA: tables; wide arguments in thorough), seeded "
                            "schedules per direction: whole flushes, reads ending d bytes before the end of the reader's buffer "
                            "(d in 0..20, delaying so that data accumulates), sizes around multiples of 64 KiB / 1 MiB, random "
                            "sizes, single-byte prefix; distinct = distinct op lines")
    ctx.assumptions += [
        "OT is a parameter satisfying OtSpec in the theorem (C06 proves it per implementation); real-OT sessions are compared on results only",
        "the two parties' goroutine scheduling is outside the model (the protocol is a fixed alternation; the Conn layer's ordering is C11)",
        "AES is an arbitrary key-derived function in the theorem",
    ]
    return ctx.finish(
        "Theorem C02_both_get_f: for every WF 2-party circuit, inputs, key derivation, offset, label randomness and every OT "
        "satisfying OtSpec, both model runs return ok(split(plainEval(x++y))), no error branch. Tie: real "
        "circuit.Garbler/Evaluator over a recording fragmenting transport; with an out-of-band ideal OT the complete byte "
        "streams of both directions and both results equal the model's byte for byte; with RSA/CO/COT/COT-malicious results "
        "equal the model. Facts: the Send/Receive/OT call order of both functions. Oracle: both results = Circuit.Compute. "
        "Theorem C02_both_get_f_over_conn: the same with every flight going through the Conn model (write buffer, writer "
        "schedule, fragmenting transport, read window) for EVERY schedule and fragmentation and every message size; "
        "C02_result_independent_of_transport. Tie (conn mode): real sessions whose streams exceed 64 KiB and 1 MiB over a "
        "fragmenting, delaying transport with every OT; ideal OT: stream digests, number and digest of (room, bytes) of every "
        "transport read and results equal the session-over-Conn model replaying the recorded fragmentation.")

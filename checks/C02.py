"""C02 Two-party protocol: both parties obtain f(x, y)."""
import hashlib
import json
import os
import re
import sys

import vlib

LEVEL = "proof"

THEOREMS = [
    "Mpc.C02_both_get_f",
    "Mpc.C02_flight1_roundtrip",
    "Mpc.C02_result_bytes_roundtrip",
    "Mpc.idealOt_spec",
    "Mpc.splitNat_packLE",
    "Mpc.C01_decode",
    # inputs as the API takes them: integers of any sign and magnitude (Model/Proto2Int.lean)
    "Mpc.C02_both_get_f_int",
    "Mpc.C02_input_bits_twos_complement",
    "Mpc.C02_session_depends_on_residues",
    "Mpc.C02_packed_argument_faithful",
    "Mpc.C02_abs_words_agree_nonneg",
    "Mpc.C02_abs_words_differ_witness",
    "Mpc.C02_abs_words_session_wrong",
    # circuit construction routes: the circuit VALUE with its derived data (Model/Proto2Route.lean)
    "Mpc.C02_both_get_f_every_circuit_value",
    "Mpc.C02_session_independent_of_derived_data",
    "Mpc.C02_route_defining_fields",
    "Mpc.C02_both_get_f_every_route",
    "Mpc.C02_routes_carry_wrong_statistics",
]

ROUTES = ["exact", "zero", "stale", "parsed", "appended", "levels"]

# The message grammar the model assumes (Model/Proto2.lean), as the ordered
# list of connection / OT calls in the two functions.
# Extracted with `gofacts callseq` (harness/cmd/gofacts/callseq.go): source
# order, same-package helpers inlined transitively, receivers named by their
# declared type -- so renaming variables, extracting / inlining helpers or
# changing loop forms does not change it, while adding, dropping or reordering
# a message does.
C = "p2p.Conn."
EXPECT_GARBLER = [C + "SendData", C + "SendUint32", C + "SendUint32", C + "SendLabel", C + "SendLabel",
                  "ot.OT.InitSender", C + "ReceiveUint32", C + "ReceiveUint32", "ot.OT.Send", C + "ReceiveLabel",
                  C + "SendData", C + "Flush"]
EXPECT_EVALUATOR = [C + "ReceiveData", C + "ReceiveUint32", C + "ReceiveUint32", C + "ReceiveLabel",
                    C + "ReceiveLabel", "ot.OT.InitReceiver", C + "SendUint32", C + "SendUint32", C + "Flush",
                    "ot.OT.Receive", C + "SendLabel", C + "Flush", C + "ReceiveData"]
MSG_METHODS = ["SendData", "SendUint32", "SendLabel", "SendString", "SendByte", "SendUint16", "ReceiveData",
               "ReceiveUint32", "ReceiveLabel", "ReceiveString", "ReceiveByte", "ReceiveUint16", "Flush", "InitSender",
               "InitReceiver", "Send", "Receive"]


def replay_exact(ctx):
    """`bin/check C02 --replay F`: when F holds one repr-mode case (a session with its circuit, OT and the two parties'
    inputs as texts / integers), derive exactly that case again, check that its op line is the recorded one and run it
    on the real code, before the seeded run that regenerates it among the others."""
    if "--replay" not in sys.argv:
        return
    try:
        rp = sys.argv[sys.argv.index("--replay") + 1]
        rp = rp if os.path.isabs(rp) else os.path.join(vlib.VERIF, rp)
        f = json.load(open(rp)).get("failure") or {}
    except Exception:
        return
    if not (f.get("replay") or {}).get("mode") == "repr":
        return
    rc, log = vlib.sh([ctx.hx, "replay", rp], env=vlib.GOENV, timeout=600)
    print("replayed case %s of %s (%s):\n%s" % (f.get("case"), os.path.basename(rp), f.get("sig"), vlib.indent(log[-2500:])))
    if rc == 1:
        g = dict(f)
        g["found_by"] = "exact replay of " + os.path.basename(rp)
        ctx.fails.append(g)


def run(ctx):
    ctx.prove("MpcVerif.Props.C02", THEOREMS)
    # composition with the connection-layer theorem of C11 (transport fragmentation, writer schedule)
    # and the whole session over two connections: every flight of every size (no hypothesis relates a message to the
    # 64 KiB write buffer / 1 MiB read window), every writer schedule, every read fragmentation of both directions
    ctx.prove("MpcVerif.Props.C02Conn", ["Mpc.C02_messages_over_conn", "Mpc.Msg.ofVal_toVal", "Mpc.C11_conn_roundtrip",
                                         "Mpc.C02_flight_over_conn", "Mpc.C02_both_get_f_over_conn",
                                         "Mpc.C02_result_independent_of_transport", "Mpc.C02_both_get_f_int_over_conn"])
    if ctx.tier == "thorough":
        ctx.leanchecker("MpcVerif.Props.C02")
    ctx.build_drv()
    ctx.fact("message sequence of circuit.Garbler (helpers inlined)", ctx.callseq("circuit", "Garbler", MSG_METHODS),
             EXPECT_GARBLER)
    ctx.fact("message sequence of circuit.Evaluator (helpers inlined)", ctx.callseq("circuit", "Evaluator", MSG_METHODS),
             EXPECT_EVALUATOR)
    ctx.fact("circuit.Garbler keeps its garbling alive (no Release, directly or in a helper) while it still uses the wire table",
             ctx.callseq("circuit", "Garbler", ["Release"]), [])
    quick = ctx.tier == "quick"
    if ctx.build_hx():
        replay_exact(ctx)
        plan = [("repr", 96 if quick else 1600), ("ideal", 150 if quick else 3000), ("real", 35 if quick else 400), ("compiled", 36 if quick else 450),
                ("shared", 6 if quick else 60), ("conn", 64 if quick else 420)]
        for mode, n in plan:
            ops, out, meta = ctx.run_hx(mode, n, timeout=1500)
            ctx.absorb_meta(meta, prefix=mode + "_")
            if mode == "repr":
                # headline = the smallest failing session (stable: ties keep generation order)
                ctx.fails.sort(key=lambda f: len(str(f.get("op", ""))))
            what = {"ideal": "both transcripts byte-exact + results", "real": "results with RSA/CO/COT/COT-malicious",
                    "compiled": "compiled MPCL programs incl. struct/array arguments, results",
                    "repr": "inputs as the API produces them: IOArg.Parse of decimal / signed / 0x / 0b / 0o texts for int, uint, "
                            "bool, struct and array arguments and *big.Int values of any sign and magnitude passed directly, "
                            "both parties, every OT, hand-made / compiled / overlapping sessions, the circuit VALUE of every case "
                            "constructed along a planned route (struct literal with exact / zero / stale Stats, parsed from "
                            "bytes, parsed then gates appended, after AssignLevels); op lines carry the route, the Stats field "
                            "the value really had (the model's circuit value carries and ignores it) and the signed "
                            "integers per member, the model encodes them with big.Int.Bit semantics; ideal OT: transcripts",
                    "shared": "24 overlapping sessions per round on ONE shared circuit value, transcripts + results",
                    "conn": "byte volumes across the 64 KiB / 1 MiB Conn buffers x every OT over the fragmenting, delaying "
                            "transport; stream digests, transport read pattern and results vs the session-over-Conn model"
                    }[mode]
            ctx.correspond("%s sessions (%s)" % (mode, what), ops, out)
            for line in open(ops, errors="replace"):
                ctx.distinct.add(hashlib.sha1(line.encode()).digest())
        c = ctx.coverage.get("counters", {})
        ctx.oblige("generator reached evaluator inputs beyond one OT-extension chunk (> 512 bits, not byte aligned) with real OT",
                   c.get("real_evaluator_input_over_512_bits_not_byte_aligned", 0) > 0,
                   "counters: %s" % {k: v for k, v in c.items() if "512" in k})
        # input representations: the classes must actually have been generated
        for side in ("garbler", "evaluator"):
            for otn in ("ideal", "co", "cot", "cotm"):
                ctx.oblige("generator: a NEGATIVE *big.Int as the %s's input in a %s-OT session" % (side, otn),
                           c.get("repr_repr_%s_negative_big_int_ot_%s" % (side, otn), 0) > 0,
                           "counters: %s" % {k: v for k, v in c.items() if "negative" in k})
            for kind in ("random", "parity", "compiled", "shared"):
                ctx.oblige("generator: a NEGATIVE *big.Int as the %s's input in a session of class %s" % (side, kind),
                           c.get("repr_repr_%s_negative_big_int_kind_%s" % (side, kind), 0) > 0,
                           "counters: %s" % {k: v for k, v in c.items() if "negative" in k})
            ctx.oblige("generator: %s inputs that are zero, wider than the declared argument, negative on an argument of more "
                       "than 64 bits, given as text and given directly, for int / uint / struct / array arguments" % side,
                       all(c.get("repr_repr_%s_%s" % (side, k), 0) > 0 for k in
                           ("zero", "magnitude_wider_than_argument", "negative_argument_over_64_bits", "form_text",
                            "form_direct", "arg_int", "arg_uint", "arg_struct", "arg_array")),
                       "counters: %s" % {k: v for k, v in c.items() if k.startswith("repr_repr_" + side)})
        # construction routes of the circuit value: every route must have run in every session class, and the
        # routes that leave the derived statistics wrong must have done so on circuits that transmit garbled rows
        for route in ROUTES:
            keys = ["repr_route_%s_kind_%s" % (route, k) for k in ("random", "parity", "compiled", "shared")] + \
                   ["repr_route_%s_ot_%s" % (route, k) for k in ("ideal", "co", "cot", "cotm")] + \
                   ["%s_route_%s" % (m, route) for m in ("ideal", "real", "compiled", "shared")] + \
                   ["repr_route_%s_with_transmitted_rows" % route]
            if route in ("zero", "stale", "appended"):
                keys += ["%s_route_%s_stats_differ_from_gate_list" % (m, route) for m in ("repr", "ideal", "real")]
            ctx.oblige("generator: circuit values constructed along route '%s' ran in every session class (hand-made random / "
                       "parity / compiled / overlapping on one shared value; ideal, CO, COT, COT-malicious OT; bit and "
                       "integer inputs)" % route, all(c.get(k, 0) > 0 for k in keys),
                       "missing: %s" % [k for k in keys if not c.get(k, 0)])
        # the size / schedule classes the quantifier names must actually have been generated
        for otn in ("ideal", "co", "cot", "cotm", "rsa"):
            ctx.oblige("generator: a %s-OT session moved more than 1 MiB (the Conn read buffer) to the evaluator" % otn,
                       c.get("conn_ot_%s_to_evaluator_over_1MiB" % otn, 0) > 0, "counters: %s" % c)
        for otn in ("co", "cot", "cotm"):
            ctx.oblige("generator: a %s-OT session moved more than 64 KiB (the Conn write buffer) to the garbler" % otn,
                       c.get("conn_ot_%s_to_garbler_over_64KiB" % otn, 0) > 0, "counters: %s" % c)
        ctx.oblige("generator: transport reads that filled the 1 MiB read buffer and reads that ended 1..20 bytes before its end",
                   c.get("conn_sessions_with_a_read_filling_the_1MiB_buffer", 0) > 0 and
                   c.get("conn_reads_ending_1_to_20_bytes_before_end_of_1MiB_buffer", 0) > 0 and
                   c.get("conn_sched_single_byte_prefix", 0) > 0, "counters: %s" % c)
        if ctx.widen:
            for s in range(ctx.seed + 7000, ctx.seed + 7004):
                for mode, n in (("repr", 800), ("ideal", 1500), ("real", 120), ("conn", 64)):
                    ops, out, meta = ctx.run_hx(mode, n, seed=s, tag="-widen", timeout=1500)
                    ctx.absorb_meta(meta, prefix="widen_")
                if ctx.fails:
                    break
    ctx.coverage["rule"] = ("construction route of the circuit value by case index (repr: (i/4)%6, shared rounds round%6; ideal / "
                            "real: i%6; compiled: (i/3)%6; the conn mode keeps exact literals) over exact / zero / stale (prefix counts, doubled, kinds rotated, all ones) / parsed / "
                            "appended (1..4 gates of any kind on new wires) / levels; repr mode: per party and flattened member a value class (0, in range, -1, negative in the signed "
                            "range, -2^(w-1), 2^(w-1)-1, 2^w-1, +-2^w, positive / negative wider than the argument, magnitudes "
                            "at machine-word boundaries, small negative) written as decimal / +-0x / 0b / 0o text through "
                            "IOArg.Parse or passed directly as *big.Int, on int / uint / bool / struct / array arguments of "
                            "random, parity (every input bit reaches an output; evaluator argument up to several machine "
                            "words) and compiled circuits and overlapping sessions, with ideal / CO / COT / COT-malicious / RSA; "
                            "other modes: random well-formed 2-party circuits (argument widths 1..70, 1..4 outputs of random widths incl. "
                            "1-bit), random inputs, seeded read fragmentation on both directions; conn mode: classes small / "
                            "tables 70..400 KiB / tables 1.1..2.5 MiB / garbler argument > 4096 bits / evaluator argument > 4096 "
                            "bits, each with ideal, CO, COT, COT-malicious (RSA: tables; wide arguments in thorough), seeded "
                            "schedules per direction: whole flushes, reads ending d bytes before the end of the reader's buffer "
                            "(d in 0..20, delaying so that data accumulates), sizes around multiples of 64 KiB / 1 MiB, random "
                            "sizes, single-byte prefix; distinct = distinct op lines")
    ctx.assumptions += [
        "circuit.Garbler / circuit.Evaluator read only Gates, NumWires, Inputs, Outputs of the circuit value: the model's "
        "Circuit2 has no field for the derived data (Stats, Gate.Level); run2Go on a GoCircuit states it, the route dimension "
        "of the repr / ideal / real / compiled / shared modes ties it (obligations: every route ran in every session class)",
        "OT is a parameter satisfying OtSpec in the theorem (C06 proves it per implementation); real-OT sessions are compared on results only",
        "the two parties' goroutine scheduling is outside the model (the protocol is a fixed alternation; the Conn layer's ordering is C11)",
        "AES is an arbitrary key-derived function in the theorem",
    ]
    return ctx.finish(
        "Theorem C02_both_get_f_int: for every WF 2-party circuit and EVERY pair of integer inputs (any sign, any magnitude, "
        "per flattened member of the declared width) both model runs return Circuit.Compute of those integers; "
        "C02_input_bits_twos_complement: the wire bits of (w, v) are the digits of v mod 2^w; C02_packed_argument_faithful "
        "(IOArg.Parse's struct packing); witnesses C02_abs_words_*: the words of |v| agree with Bit(i) exactly on v >= 0. Tie "
        "(repr mode): op lines carry the signed integers, real sessions take them from IOArg.Parse texts or directly. "
        "C02_both_get_f_every_circuit_value / _every_route: the same for a Go circuit VALUE whatever its derived fields (Stats, "
        "Gate.Level) hold and along every construction route (exact, zero, stale, parsed, appended, levels); "
        "C02_session_independent_of_derived_data; tie: op `c02 rt <route> <Stats> ...` in the repr, ideal, real, compiled and shared modes. "
        "Theorem C02_both_get_f: for every WF 2-party circuit, inputs, key derivation, offset, label randomness and every OT "
        "satisfying OtSpec, both model runs return ok(split(plainEval(x++y))), no error branch. Tie: real "
        "circuit.Garbler/Evaluator over a recording fragmenting transport; with an out-of-band ideal OT the complete byte "
        "streams of both directions and both results equal the model's byte for byte; with RSA/CO/COT/COT-malicious results "
        "equal the model. Facts: the Send/Receive/OT call order of both functions. Oracle: both results = Circuit.Compute. "
        "Theorem C02_both_get_f_over_conn: the same with every flight going through the Conn model (write buffer, writer "
        "schedule, fragmenting transport, read window) for EVERY schedule and fragmentation and every message size; "
        "C02_result_independent_of_transport. Tie (conn mode): real sessions whose streams exceed 64 KiB and 1 MiB over a "
        "fragmenting, delaying transport with every OT; ideal OT: stream digests, number and digest of (room, bytes) of every "
        "transport read and results equal the session-over-Conn model replaying the recorded fragmentation.")

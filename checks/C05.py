"""C05 Streaming mode agrees with whole-circuit mode."""
import hashlib
import json
import os
import re
import sys

import vlib

LEVEL = "translation_validation"

THEOREMS = [
    "Mpc.C05_stream_step",
    "Mpc.C05_stream_steps",
    "Mpc.C05_stream_records_wf",
    "Mpc.C05_stream_gate",
    "Mpc.C05_stream_circuit",
    "Mpc.C05_stream_program",
    "Mpc.C05_stream_decode",
    "Mpc.C05_stream_session",
    "Mpc.C05_stream_concrete",
    "Mpc.C05_stream_undriven_output_keeps",
    "Mpc.C05_stream_undriven_output_undefined",
    "Mpc.C05_stream_output_slot_stale_witness",
    "Mpc.C05_gc_safe",
    "Mpc.C05_gcInsert_safe",
    "Mpc.C05_gc_safe_reordered",
    "Mpc.C05_defineBeforeUse_id",
    "Mpc.C05_old_use_before_def_witness",
    "Mpc.C05_walloc_remove_exact",
    "Mpc.C05_walloc_lookup_exact",
    "Mpc.C05_const_pad_partial",
    "Mpc.C05_const_second_width_witness",
    "Mpc.C05_gc_safe_transitive",
    "Mpc.C05_gc_witnesses_now_safe",
    "Mpc.C05_gcOld_safe_partial",
    "Mpc.C05_gcOld_chain_pass",
    "Mpc.C05_gcOld_unsafe_alias_chain",
    "Mpc.C05_gcOld_chain_ids_collide",
    "Mpc.C05_gcOld_unsafe_concat",
    "Mpc.C05_gcOld_concat_ids_collide",
    "Mpc.C05_gc_query_safe",
    "Mpc.C05_gc_query_table",
    "Mpc.C05_gc_current_set_sound",
    "Mpc.C05_gcMemo_pass",
    "Mpc.C05_gcMemo_unsafe",
    "Mpc.C05_gcMemo_not_current_sound",
    "Mpc.C05_gcMemo_ids_collide",
    "Mpc.C05_gcMemo_witness_now_safe",
]

# opcode sets the models assume (Model/Gc.lean: Op.gcAlias, Op.rewires)
EXPECT_GC_ALIAS = ["Amov", "Concat", "Lshift", "Mov", "Rshift", "Slice", "Smov", "Srshift"]
EXPECT_STREAM_CASES = ["Amov", "Circ", "Concat", "GC", "Lshift", "Mov", "Ret", "Rshift", "Slice", "Smov", "Srshift"]


def case_labels(body, switch_re):
    """Labels of the `case` clauses of the first switch matching switch_re."""
    body = vlib.strip_go_comments(body or "")
    m = re.search(switch_re, body)
    if not m:
        return None
    labels = set()
    depth = 0
    i = m.end()
    # walk the switch body, collecting `case A, B:` at nesting depth 1
    depth = 1
    for line in body[i:].split("\n"):
        s = line.strip()
        if depth == 1:
            cm = re.match(r"case\s+([A-Za-z0-9_, ]+):", s)
            if cm:
                for l in cm.group(1).split(","):
                    labels.add(l.strip())
        depth += line.count("{") - line.count("}")
        if depth <= 0:
            break
    return sorted(labels)


def resolve_int(text, token):
    """Value of an integer literal or of a named constant declared in `text`
    (`name = 123`, `name byte = 0b...`, `const name = 0x..`)."""
    token = token.strip()
    try:
        return int(token, 0)
    except ValueError:
        pass
    m = re.search(r"\b" + re.escape(token) + r"\b(?:\s+[A-Za-z_][\w.]*)?\s*=\s*(0[bBxXoO]?[0-9a-fA-F_]+|\d+)", text)
    if m:
        try:
            return int(m.group(1), 0)
        except ValueError:
            return None
    return None


def facts(ctx):
    """One SEMANTIC fact (a constant the harness replicates) and advisory
    source-text expectations.  Every advisory's semantic content is decided by
    a correspondence or by the oracle of this check (named in its text); a
    drift only widens the search."""
    pkg = "\n".join(vlib.strip_go_comments(vlib.repo_file("compiler/ssa/" + f))
                    for f in ("wire_allocator.go", "program.go", "streamer.go"))
    wa = vlib.strip_go_comments(vlib.repo_file("compiler/ssa/wire_allocator.go"))
    m = re.search(r"\bhash\s+\[([^\]]+)\]\*allocByValue", wa)
    ctx.fact("number of hash buckets of WireAllocator (replicated by the harness as numBuckets; named constants resolved)",
             resolve_int(pkg, m.group(1)) if m else None, 10240)

    gc = vlib.go_func_body("compiler/ssa/program.go", r"\(prog \*Program\) GC\(")
    gcb = vlib.strip_go_comments(gc or "")
    m = re.search(r"aliases := make\(.*?switch step\.Instr\.Op \{\s*case\s+([A-Za-z, \n\t]+):", gcb, flags=re.S)
    got = sorted(x.strip() for x in m.group(1).split(",")) if m else None
    ctx.advise("alias operands tracked by Program.GC [decided by: GC-pass correspondence + oracle]", got, EXPECT_GC_ALIAS)
    ctx.advise("Program.GC starts with defineBeforeUse [decided by: GC correspondence on scrambled step lists + "
               "definition-before-use check of every step list]",
               bool(re.search(r"func \(prog \*Program\) GC\(\) \{\s*prog\.defineBeforeUse\(\)", gcb)), True)
    ctx.advise("Program.GC: liveness closed over direct and indirect aliases (aliasLive recursion) [decided by: "
               "GC-pass correspondence + oracle early-free analysis]",
               [bool(re.search(r"aliasLive = func\(id ValueID\) bool \{\s*for _, alias := range aliases\[id\] \{\s*"
                               r"if set\.Bit\(int\(alias\.ID\)\) == 1 \|\| aliasLive\(alias\.ID\) \{\s*return true", gcb)),
                bool(re.search(r"if set\.Bit\(int\(in\.ID\)\) == 0 \{\s*if !aliasLive\(in\.ID\) \{", gcb))],
               [True, True])
    rm = vlib.go_func_body("compiler/ssa/wire_allocator.go", r"\(walloc \*WireAllocator\) remove\(")
    ctx.advise("WireAllocator.remove walks the chain and unlinks the header whose key equals the value [decided by: "
               "allocator-trace correspondence + oracle on bucket-collision programs]",
               bool(rm) and bool(re.search(r"for ptr := &walloc\.hash\[hash\]; \*ptr != nil; ptr = &\(\*ptr\)\.next \{\s*"
                                           r"if \(\*ptr\)\.key\.Equal\(&v\) \{\s*ret := \*ptr\s*\*ptr = \(\*ptr\)\.next\s*return ret",
                                           vlib.strip_go_comments(rm))), True)
    lk = vlib.go_func_body("compiler/ssa/wire_allocator.go", r"\(walloc \*WireAllocator\) lookup\(")
    ctx.advise("WireAllocator.lookup moves a header to the bucket head only when found at depth > 2 [not observable on "
               "the wire; model detail]", bool(lk) and "if count > 2 {" in lk and "walloc.hash[hash] = alloc" in lk, True)
    st = vlib.go_func_body("compiler/ssa/streamer.go", r"\(prog \*Program\) Stream\(")
    ctx.advise("operands special-cased (not garbled via circuitGenerators) by Program.Stream [decided by: allocator-trace "
               "correspondence: return wire ids and per-circuit max ids]",
               case_labels(st, r"switch instr\.Op \{"), EXPECT_STREAM_CASES)
    ctx.advise("Program.Stream re-widens an *mpa.Int constant used at a second width from its own value and size "
               "[decided by: allocator-trace correspondence + oracle]",
               bool(st) and "in.ConstValue.(*mpa.Int); ok && in.Const" in st and "own := types.Size(mi.TypeSize())" in st
               and "if src < own && in.Bit(src) {" in st, True)
    sg = vlib.strip_go_comments(vlib.repo_file("circuit/stream_garble.go"))
    gg = vlib.strip_go_comments(vlib.go_func_body("circuit/stream_garble.go", r"\(stream \*Streaming\) garbleGate\(") or "")
    flags = [resolve_int(sg, t) for t in re.findall(r"op \|= ([A-Za-z_0-9]+)", gg)]
    ctx.advise("op byte flags of Streaming.garbleGate (aTmp, bTmp, cTmp, 16-bit ids), named constants resolved "
               "[decided by: byte-exact gate-record correspondence]", flags, [0x80, 0x40, 0x20, 0x10])
    m = re.search(r"aIndex <= (\w+) &&\s*bIndex <= (\w+) &&\s*cIndex <= (\w+)", gg)
    ctx.advise("16-bit id encoding chosen iff all three ids <= 0xffff, named constants resolved [decided by: byte-exact "
               "gate-record correspondence incl. ids at 0xfff0..0x1000f]",
               [resolve_int(sg, t) for t in m.groups()] if m else None, [0xffff, 0xffff, 0xffff])
    ga = vlib.go_func_body("circuit/stream_garble.go", r"\(stream \*Streaming\) Garble\(")
    ctx.advise("Streaming.Garble uses the stream-wide tweak counter (&stream.id) [decided by: byte-exact correspondence "
               "over several Garble calls on one Streaming object]",
               bool(ga) and "&stream.id" in ga and "var id uint32" not in ga, True)
    ev = vlib.go_func_body("circuit/stream_evaluator.go", r"StreamEvaluator\(")
    body = vlib.strip_go_comments(ev or "")
    pos_id = body.find("var id uint32")
    pos_loop = body.find("loop:")
    ctx.advise("StreamEvaluator declares its tweak counter once, before the main loop [decided by: oracle: a garbler / "
               "evaluator counter mismatch fails every multi-instruction session]",
               body.count("var id uint32") == 1 and 0 < pos_id < pos_loop, True)
    se = vlib.strip_go_comments(vlib.repo_file("circuit/stream_evaluator.go")) + sg
    ctx.advise("StreamEvaluator flag masks, named constants resolved [decided by: oracle sessions]",
               [resolve_int(se, t) for t in re.findall(r"gop&([A-Za-z_0-9]+) != 0", body)], [0x80, 0x40, 0x20, 0x10])


def replay_exact(ctx):
    """`bin/check C05 --replay F`: F holds one program and one input pair; run exactly that case (real streaming pair
    vs real whole circuit) before the seeded run that regenerates it."""
    if "--replay" not in sys.argv:
        return
    try:
        rp = sys.argv[sys.argv.index("--replay") + 1]
        rp = rp if os.path.isabs(rp) else os.path.join(vlib.VERIF, rp)
        f = json.load(open(rp)).get("failure") or {}
    except Exception:
        return
    if not f.get("src"):
        return
    rc, log = vlib.sh([ctx.hx, "replay", rp], env=vlib.GOENV, timeout=600)
    print("replayed case %s of seed %s (%s):\n%s" % (f.get("case"), f.get("seed"), f.get("class"), vlib.indent(log[-2500:])))
    if rc != 0:
        g = dict(f)
        g["found_by"] = "exact replay of " + os.path.basename(rp)
        ctx.fails.append(g)


# value classes of the input-representation class (harness/cmd/c05/repr.go)
REPR_VALUES = ["zero", "in_range", "minus_one", "negative_in_signed_range", "min_signed", "max_signed", "max_unsigned",
               "two_pow_w", "minus_two_pow_w", "positive_wider_than_argument", "negative_wider_than_argument",
               "negative_word_boundary_magnitude", "positive_word_boundary_magnitude", "small_negative"]


def run(ctx):
    ctx.prove("MpcVerif.Props.C05", THEOREMS)
    if ctx.tier == "thorough":
        ctx.leanchecker("MpcVerif.Props.C05")
    ctx.build_drv()
    facts(ctx)
    quick = ctx.tier == "quick"
    if ctx.build_hx():
        replay_exact(ctx)
        seeds = [ctx.seed] if quick else [ctx.seed, ctx.seed + 1000, ctx.seed + 2000, ctx.seed + 3000]
        n_or = 900 if quick else 4000
        n_co = 300 if quick else 5000
        n_upd = 200 if quick else 600
        n_lib = 160 if quick else 320
        n_repr = 96 if quick else 200
        for s in seeds:
            # class repr: input representations (harness/cmd/c05/repr.go): the texts fed to both streaming parties and to
            # the whole-circuit reference are negative / oversized / word-boundary integers in every notation
            ops, out, meta = ctx.run_hx("repr", n_repr, seed=s, timeout=1500)
            ctx.absorb_meta(meta)
            # class lib: calls of the MPCL library's functions (catalogue read from $MPCLDIR/pkg at run time):
            # MPCL-implemented, native circuits (Circ instructions), compiler builtins (Builtin instructions)
            ops, out, meta = ctx.run_hx("oracle", n_lib, seed=s, tag="-lib", timeout=1500, extra_args=["-extra", "lib"])
            ctx.absorb_meta(meta)
            ctx.correspond("Program.GC + wire allocator trace on programs calling library functions (seed %d)" % s,
                           ops, out)
            for line in open(ops, errors="replace"):
                if not line.startswith("c05 skip"):
                    ctx.distinct.add(hashlib.sha1(line.encode()).digest())
            # class upd: element updates inside if / else and loops, every combination of the conditions
            ops, out, meta = ctx.run_hx("oracle", n_upd, seed=s, tag="-upd", timeout=1500, extra_args=["-extra", "upd"])
            ctx.absorb_meta(meta)
            ctx.correspond("Program.GC + wire allocator trace on programs with element updates inside if / else and "
                           "loops (seed %d)" % s, ops, out)
            for line in open(ops, errors="replace"):
                if not line.startswith("c05 skip"):
                    ctx.distinct.add(hashlib.sha1(line.encode()).digest())
            ops, out, meta = ctx.run_hx("oracle", n_or, seed=s, timeout=1500)
            ctx.absorb_meta(meta)
            ctx.correspond("Program.GC (defineBeforeUse + gc insertion, also on scrambled step lists) + wire allocator "
                           "trace (seed %d)" % s, ops, out)
            for line in open(ops, errors="replace"):
                if not line.startswith("c05 skip"):
                    ctx.distinct.add(hashlib.sha1(line.encode()).digest())
            ops, out, meta = ctx.run_hx("codec", n_co, seed=s, timeout=1500)
            ctx.absorb_meta(meta)
            ctx.correspond("Streaming.Garble bytes (seed %d)" % s, ops, out)
            for line in open(ops, errors="replace"):
                ctx.distinct.add(hashlib.sha1(line.encode()).digest())
        if ctx.widen:
            ops, out, meta = ctx.run_hx("repr", 400, seed=ctx.seed + 7000, tag="-widen", timeout=1500)
            ctx.absorb_meta(meta, prefix="widen_")
        if ctx.widen:
            ops, out, meta = ctx.run_hx("oracle", 800, seed=ctx.seed + 7000, tag="-lib-widen", timeout=1500,
                                        extra_args=["-extra", "lib"])
            ctx.absorb_meta(meta, prefix="widen_")
        if ctx.widen:
            for s in range(ctx.seed + 7000, ctx.seed + 7002):
                ops, out, meta = ctx.run_hx("oracle", 1200, seed=s, tag="-upd-widen", timeout=1500,
                                            extra_args=["-extra", "upd"])
                ctx.absorb_meta(meta, prefix="widen_")
                if ctx.fails:
                    break
        if ctx.widen:
            for s in range(ctx.seed + 7000, ctx.seed + 7003):
                ops, out, meta = ctx.run_hx("oracle", 2000, seed=s, tag="-widen", timeout=1500,
                                            extra_args=["-extra", "big=30,large"])
                ctx.absorb_meta(meta, prefix="widen_")
                if ctx.fails:
                    break
        c = ctx.coverage.get("counters", {})
        ctx.coverage["programs"] = c.get("programs", 0)
        ctx.coverage["disagreements_checked"] = c.get("compared", 0)
        ctx.evaluations += c.get("compared", 0) + c.get("repr_compared", 0)
        ctx.oblige("oracle compared at least 70% of the generated programs with the whole-circuit reference",
                   c.get("compared", 0) * 10 >= c.get("programs", 1) * 7, str(c))
        ctx.oblige("both wire-id encodings occurred inside single streaming sessions",
                   c.get("programs_with_both_encodings", 0) > 0 and c.get("gates_32bit_ids", 0) > 0, str(c))
        ctx.oblige("generator reached programs with gc active and no early free that were compared",
                   c.get("compared_gc_active_no_early_free", 0) > 0, str(c))
        ctx.oblige("a streamed instruction circuit had more than 65536 wires (temporary indexes > 65535) while "
                   "persistent ids were small, both id encodings in that session",
                   c.get("programs_with_tmp_index_over_65535_and_small_ids", 0) > 0 and c.get("codec_idclass_4", 0) > 0,
                   str(c))
        ctx.oblige("simultaneously live values shared allocator hash buckets: chains of 2, 3 and 4 headers, gc of "
                   "head and of non-head headers, move-to-front lookups",
                   all(c.get(k, 0) > 0 for k in ("programs_with_bucket_chain_2", "programs_with_bucket_chain_3",
                                                 "programs_with_bucket_chain_4", "gc_of_non_head_header",
                                                 "gc_in_chain_len2_pos0", "gc_in_chain_len2_pos1",
                                                 "gc_in_chain_len3_pos1", "bucket_lookup_moved_to_front")),
                   str({k: v for k, v in c.items() if "bucket" in k or "chain" in k}))
        if not quick:
            ctx.oblige("large real examples (sort, aes) ran in streaming mode", c.get("class_large", 0) >= 2, str(c))
        ctx.oblige("definition-before-use was evaluated on every compiled step list (early-return class ran)",
                   c.get("ssa_def_before_use_holds", 0) + c.get("ssa_use_before_def_programs", 0) == c.get("compiled", -1)
                   and c.get("feat_early_return", 0) > 0 and c.get("gcop_scrambled", 0) > 0, str(c))
        want_ops = ["amov", "concat", "lshift", "rshift", "srshift", "slice", "mov", "smov", "phi", "index"]
        missing = [o for o in want_ops if c.get("ssaop_" + o, 0) == 0]
        ctx.oblige("every rewiring operand (and phi, index) occurred in the streamed programs", not missing, str(missing))
        ctx.oblige("the two hand-found witnesses of the pre-0c2f851 GC defects ran (corpus programs)",
                   c.get("class_corpus", 0) >= 3, str(c))
        ctx.oblige("the source of the Lean witness memoProg (C05_gcMemo_unsafe) and its mirror image ran on both values of "
                   "the condition", c.get("feat_upd_corpus", 0) >= 2, str(c.get("feat_upd_corpus")))
        upd = {k: v for k, v in c.items() if "upd" in k or k in ("alt_vectors", "oracle_fail")}
        ctx.oblige("class upd: every program ran on every combination of its conditions and the whole-circuit results "
                   "show that every branch was taken (except programs on which a failing input was found)",
                   c.get("upd_some_branch_not_taken", 0) == 0 and
                   c.get("upd_all_branches_taken", 0) + c.get("oracle_fail", 0) >= c.get("upd_tagged", 1) - c.get("reference_unavailable", 0)
                   and c.get("alt_vectors", 0) >= c.get("class_upd", 0), str(upd))
        miss = [k for k in ("upd_if", "upd_loop", "upd_store_burst", "upd_reuse_after_burst", "upd_store_field", "upd_struct",
                            "upd_second_array", "upd_array_is_evaluator_input", "upd_no_else", "upd_tail_alloc", "upd_read_elem")
                if c.get("feat_" + k, 0) == 0]
        ctx.oblige("class upd: array and struct-field updates in if / else branches and loops, update bursts with the stored "
                   "scalar used again, same-width computations after the merge, either party owning the array", not miss,
                   str(miss))
        lib = {k: v for k, v in c.items() if "lib" in k or k in ("ssaop_circ", "ssaop_builtin")}
        ctx.oblige("class lib: the library catalogue was read from the tree under test, every catalogue entry was "
                   "instantiated at least twice per run, at least 40% of the library functions were compared with the "
                   "whole-circuit reference in every run on average, among them native circuits (Circ instructions) and "
                   "compiler builtins (Builtin instructions); programs with dirtied free lists, two calls, array and "
                   "unsized arguments ran",
                   c.get("lib_catalogue_functions", 0) >= 40 * len(seeds)
                   and c.get("class_lib", 0) >= 2 * c.get("lib_catalogue_functions", 1 << 30)
                   and c.get("lib_functions_compared", 0) * 10 >= 4 * c.get("lib_catalogue_functions", 1 << 30)
                   and c.get("ssaop_circ", 0) > 0 and c.get("ssaop_builtin", 0) > 0
                   and all(c.get("feat_" + k, 0) > 0 for k in ("lib_dirty", "lib_two_calls", "lib_array_arg", "lib_unsized_arg",
                                                              "lib_round_0", "lib_round_1", "lib_corpus")),
                   str(lib))
        rp = {k: v for k, v in c.items() if k.startswith("repr_")}
        ctx.oblige("class repr (input representations): negative texts for int AND uint arguments, negative values beyond 64 "
                   "bits for arguments over 64 bits, magnitudes wider than the argument, every value class (%s), struct, "
                   "array, bool and unsized arguments at either party, array texts longer than the array (rejected by "
                   "IOArg.Parse in BOTH modes), ideal and Chou-Orlandi OT; at least 85%% of the vectors were compared with "
                   "the whole-circuit reference and the pass-through residues were checked" % ", ".join(REPR_VALUES),
                   all(rp.get("repr_value_" + k, 0) > 0 for k in REPR_VALUES)
                   and all(rp.get("repr_%s_arg_%s" % (side, k), 0) > 0 for side in ("garbler", "evaluator")
                           for k in ("scalar", "struct", "array", "bool", "unsized"))
                   and rp.get("repr_text_negative", 0) > 0 and rp.get("repr_negative_for_unsigned_argument", 0) > 0
                   and rp.get("repr_negative_beyond_64_bits_for_argument_over_64_bits", 0) > 0
                   and rp.get("repr_magnitude_wider_than_argument", 0) > 0
                   and rp.get("repr_array_too_long_rejected_in_both_modes", 0) > 0
                   and rp.get("repr_array_negative_decimal", 0) > 0 and rp.get("repr_unsized_negative_text", 0) > 0
                   and rp.get("repr_ot_co", 0) > 0 and rp.get("repr_ot_ideal", 0) > 0
                   and rp.get("repr_compared", 0) * 100 >= 85 * rp.get("repr_vectors", 1 << 30)
                   and rp.get("repr_passthrough_checked", 0) > 0, str(rp))
    ctx.coverage["rule"] = (
        "oracle: class repr (mode repr: small programs returning every bit of both arguments plus a sum, a difference and "
        "a comparison across the parties; arguments int / uint of 3..130 bits, bool, structs, integer arrays, unsized int / "
        "uint; 5 (thorough 8) input vectors per program, the texts drawn from: " + ", ".join(REPR_VALUES) + " (wider: up "
        "to 130 bits beyond the width; word boundaries 2^32, 2^63, 2^64, 2^65, 2^128 +-1) in decimal / 0x / 0b / 0o / "
        "signed notation, array texts shorter than, as long as and longer than the array, negative array decimals; the "
        "value class of a scalar argument walks through all classes; streaming garbler, streaming evaluator and the "
        "whole-circuit reference must agree, an input rejected by one mode only is a disagreement, a scalar argument "
        "returned unchanged must be the written integer's residue mod 2^w); class lib (one main per exported function of $MPCLDIR/pkg whose signature is built from scalars and "
        "integer arrays / slices - the catalogue is read from the library source of the tree under test, symbolic array "
        "sizes resolved from the packages' numeric constants; entry (i + seed) mod len for program i; unsized parameters "
        "wide in the first round, boundary-biased narrow widths later; values of the result's width die before the call "
        "so that the result's wire ids carry stale labels; optionally a second call on other arguments; two input pairs "
        "per program, biased to all-ones / zero / top bit; programs whose SSA cost estimate exceeds the tier's budget "
        "are skipped and counted); class upd (array / struct-field element updates inside if / else, nested if and loops, bursts of updates "
        "of one array, the stored scalar used again afterwards, computations of the scalar's width after the merge; each "
        "program runs on all 2^k combinations of its k conditions and a tag result proves on the whole-circuit reference "
        "that every branch was taken); a program whose real GC'd step list frees a range that is still pointed at but whose "
        "session agreed goes to the exposure search (fresh inputs; variants that return a dropped variable; variants with a "
        "computation of the freed range's width inserted at the statement boundaries - run only if the variant's own step "
        "list still has the early free); seeded grammar-based MPCL programs in 4 classes (alias-heavy with few widths, mixed, unsized main "
        "arguments instantiated from the input sizes, garbler argument [>1024]uint64 so that wire ids exceed 65535, a boundary sweep around id 65536, and small "
        "programs with ONE instruction circuit of more than 65536 wires - wide division/modulo/multiplication - so that "
        "temporary wire indexes exceed 65535 while persistent ids are small; a collide class that renames identifiers - "
        "an early class with pending phis, if/else with an early return in one branch and a continuation reading the "
        "results; names searched with the real Value.HashCode - so that 2..4 simultaneously live values share a bucket of the "
        "allocator's hash table; in the thorough tier two large library programs: sort, aes) "
        "with scalar/array/struct arguments, 1-4 results incl. arrays, random inputs, ideal and Chou-Orlandi OT, seeded "
        "read fragmentation; every program's SSA is analysed per bit for id ranges freed while still pointed at. "
        "distinct = distinct Lean op lines (pre-GC step lists with allocator tables; Streaming.Garble cases)")
    ctx.assumptions += [
        "the MPCL front end (AST -> SSA) and the per-instruction circuit builders are validated by the oracle, not "
        "modelled; programs whose whole-circuit compilation fails are not compared (counted as reference_unavailable)",
        "Program.Stream's 32-byte AES key comes from crypto/rand and is not controllable: sessions are compared on "
        "results, types, the GC'd step list, return wire ids and per-circuit max wire ids, not byte for byte; "
        "Streaming.Garble itself is compared byte for byte on a fixed tape",
        "PointsInto over-approximates per value (a slice of a concatenation counts as pointing into both parts); "
        "safety under it implies safety of the real per-bit wiring",
        "crypto/aes is an arbitrary function in the theorems",
    ]
    return ctx.finish(
        "Oracle: real compiler.Stream <-> circuit.StreamEvaluator sessions vs real Compile + Circuit.Compute on generated "
        "programs: values and output types of both parties. A mismatch is attributed by re-running ssa.Program.Stream with "
        "exactly the gc instructions dropped that free a range which is still pointed at (per-bit replay of the streamer's "
        "rewiring); (the two GC defects found this way were fixed in /repo by 0c2f851; their witnesses stay in the corpus). "
        "Class lib calls every function of the MPCL library whose signature is in the class's type grammar (catalogue "
        "scanned from $MPCLDIR/pkg of the tree under test); a failing session of a program with Builtin instructions is "
        "re-run with every builtin's builder working on a copy of its result slice and every slot it replaced connected to "
        "the original output wire with an ID gate - agreement then attributes the failure to Program.Stream using the "
        "builder's result slice as the instruction circuit's output wires (known findings "
        "C05-stream-builder-result-slots-panic / -stale; C05_stream_undriven_output_keeps, "
        "C05_stream_output_slot_stale_witness). Theorems: gate "
        "record codec round trip (both id encodings, all flags), streamed gate/circuit/program keeps the C01 relation on "
        "the global wire store for any tweak-counter start, C05_gc_safe: Program.GC (alias table closed transitively over "
        "the eight rewiring operands) never frees a range a later-read value points into, for every well-formed step list; "
        "for the pre-fix pass gcPassOld the partial theorem and the two negation witnesses with allocator-model id "
        "collisions are kept. C05_gc_query_safe: the same safety for every implementation of the aliasLive query with any "
        "state kept between queries, provided each answer is sound for the set it is asked about; Program.GC is the "
        "stateless instance; a memo table of answers that lives for the whole backward pass is not (C05_gcMemo_unsafe, "
        "witness: update chain in one branch of an if / else, allocator-model id collision). Tie: Lean gcPass + allocator/rewiring model vs the real GC'd step list, the real return wire ids and "
        "per-circuit max ids parsed from the wire; Lean streamGarble + record encoder vs real Streaming.Garble bytes "
        "(several circuits per Streaming object, ids on both sides of 65535). Facts: alias operand set of GC, special-cased "
        "operands of Stream, op-byte flags, tweak counter placement.")
